#!/bin/bash
# Idempotent offline setup: the checks need hypothesis (+ numpy, pyyaml, gymnasium that the repository needs anyway) in /venv.
set -e
if ! /venv/bin/python -c "import hypothesis" 2>/dev/null; then
  PIP_NO_INDEX=1 /venv/bin/pip install --no-index --find-links /opt/veriftools/wheels hypothesis
fi
/venv/bin/python -c "import hypothesis, numpy, yaml, gymnasium; print('setup ok: hypothesis', hypothesis.__version__)"
mkdir -p "$(dirname "$0")/evidence" "$(dirname "$0")/replays"
