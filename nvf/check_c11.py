"""C11 Action spaces enumerate exactly the scenario's actions."""
import itertools
import sys
from collections import Counter

import numpy as np

from . import common, docs, draws, engine, model as M, sources, walk
from .common import Failure, Reporter
from .walk import KIND_OF_CLASS

PID = "C11"
RULE = ("cases = scenario (S1 shipped | S2 generated | S3 random documents incl. duplicate (service, OS) definitions and undefined "
        "combinations) x short history. Flat space: multiset of (kind, target, service/process, OS, cost, prob, granted access) "
        "compared with the cartesian product built from the scenario source, size vs get_action_space_size(), two environments "
        "compared index by index. Parameterised space: EXHAUSTIVE over product(range(nvec)) (sampled above 60000 vectors), each "
        "vector decoded and compared with the documented meaning. Mask: compared with discovered(target) in every visited state. "
        "Non-trivial = scenario with an undefined (service, OS) or (process, OS) combination and a subnet smaller than the largest "
        "(host index wrap-around), or a mask evaluated in a state with both discovered and undiscovered hosts; distinct by "
        "scenario fingerprint (/ state).")

ACTION_TYPES = ["exploit", "privesc", "service_scan", "os_scan", "subnet_scan", "process_scan"]
CAP = 60000


def describe(a):
    """content of a real Action object through its public attributes"""
    kind = walk.kind_of(a)
    d = dict(kind=kind, target=tuple(int(i) for i in a.target), cost=float(a.cost), prob=float(a.prob))
    if kind == "exploit":
        d.update(service=str(a.service), os=None if a.os is None else str(a.os), access=int(a.access))
    elif kind == "privesc":
        d.update(process=None if a.process is None else str(a.process), os=None if a.os is None else str(a.os), access=int(a.access))
    return d


def model_desc(act):
    d = dict(kind=act.kind, target=act.target, cost=float(act.cost), prob=float(act.prob))
    if act.kind == "exploit":
        d.update(service=act.service, os=act.os, access=int(act.grant))
    elif act.kind == "privesc":
        d.update(process=act.process, os=act.os, access=int(act.grant))
    return d


def freeze(d):
    return tuple(sorted((k, str(v)) for k, v in d.items()))


def check_flat(h, scn, rep):
    env = h.env
    real = [describe(a) for a in env.action_space.actions]
    want = [model_desc(a) for a in h.acts]
    cr, cw = Counter(freeze(d) for d in real), Counter(freeze(d) for d in want)
    if cr != cw:
        missing = list((cw - cr).elements())[:3]
        extra = list((cr - cw).elements())[:3]
        raise Failure("C11:flat-set", f"flat action set differs from the scenario's actions: missing {missing} extra {extra}",
                      bucket="C11:flat-set:" + ("missing" if missing else "extra"))
    n = int(env.action_space.n)
    if n != len(real) or n != int(scn.get_action_space_size()) or n != len(want):
        raise Failure("C11:flat-size", f"action_space.n={n}, len(actions)={len(real)}, get_action_space_size()={scn.get_action_space_size()}, expected {len(want)}")
    for i in (range(n) if n <= 4000 else list(range(0, n, 7)) + [n - 1]):
        if describe(env.action_space.get_action(i)) != real[i]:
            raise Failure("C11:get-action", f"get_action({i}) is not actions[{i}]")
    env2 = sources.make_env(scn)
    real2 = [describe(a) for a in env2.action_space.actions]
    if real2 != real:
        k = next(i for i, (x, y) in enumerate(zip(real, real2)) if x != y) if len(real) == len(real2) else -1
        raise Failure("C11:mapping-not-stable", f"two environments of the same scenario map index {k} to different actions")
    return set(cr)


def expected_decode(spec, v, first_e, first_p):
    kind = ACTION_TYPES[v[0]]
    subnet = v[1] + 1
    host = v[2] % spec.subnets[subnet]
    target = (subnet, host)
    if kind in M.SCANS:
        return dict(kind=kind, target=target, cost=float(spec.scan_cost[kind]), prob=1.0)
    os = None if v[3] == 0 else spec.os[v[3] - 1]
    if kind == "exploit":
        d = first_e.get((spec.services[v[4]], os))
        if d is None:
            return dict(kind="noop", target=(1, 0), cost=0.0, prob=1.0)
        return dict(kind=kind, target=target, cost=float(d["cost"]), prob=float(d["prob"]),
                    service=d["service"], os=d["os"], access=int(d["access"]))
    d = first_p.get((spec.processes[v[5]], os))
    if d is None:
        return dict(kind="noop", target=(1, 0), cost=0.0, prob=1.0)
    return dict(kind=kind, target=target, cost=float(d["cost"]), prob=float(d["prob"]),
                process=d["process"], os=d["os"], access=int(d["access"]))


def check_param(h, scn, rep, flat_set, pick):
    spec = h.spec
    penv = sources.make_env(scn, flat_actions=False)
    space = penv.action_space
    nvec = [int(x) for x in space.nvec]
    want_nvec = [6, len(spec.subnets) - 1, max(spec.subnets), len(spec.os) + 1, len(spec.services), len(spec.processes)]
    if nvec != want_nvec:
        raise Failure("C11:nvec", f"nvec {nvec} expected {want_nvec}")
    first_e, first_p = {}, {}
    for n, d in spec.exploits.items():
        first_e.setdefault((d["service"], d["os"]), d)
    for n, d in spec.privescs.items():
        first_p.setdefault((d["process"], d["os"]), d)
    total = int(np.prod(nvec))
    if total <= CAP:
        vectors = itertools.product(*[range(k) for k in nvec])
        exhaustive = True
    else:
        rs = np.random.RandomState(pick)
        vectors = (tuple(int(rs.randint(0, k)) for k in nvec) for _ in range(CAP // 4))
        exhaustive = False
    cnt = 0
    noops = 0
    for v in vectors:
        cnt += 1
        form = list(v) if cnt % 3 == 0 else (tuple(v) if cnt % 3 == 1 else np.array(v))
        try:
            a = space.get_action(form)
        except Exception as e:
            raise Failure("C11:param-decode-error", f"vector {list(v)} raised {type(e).__name__}: {e}")
        got = describe(a)
        if isinstance(form, np.ndarray) and cnt % 6 == 2:
            # the same array object decoded again (render_action(a) then step(a)): same action, array untouched
            again = describe(space.get_action(form))
            if again != got or form.tolist() != list(v):
                raise Failure("C11:param-decode-twice", f"vector {list(v)} given twice as one int64 array: first {got}, then {again}; "
                              f"the caller's array is now {form.tolist()}")
        want = expected_decode(spec, v, first_e, first_p)
        if got["kind"] == "noop":
            got = dict(kind="noop", target=got["target"], cost=got["cost"], prob=got["prob"])
            noops += 1
        if got != want:
            raise Failure("C11:param-decode", f"vector {list(v)} decodes to {got}, documented meaning {want}",
                          bucket=f"C11:param-decode:{want['kind']}")
        if got["kind"] != "noop" and freeze(got) not in flat_set:
            raise Failure("C11:param-not-in-flat", f"vector {list(v)} decodes to {got} which is not in the flat action set")
    rep.count("param-vectors", cnt)
    rep.count("param-noop-vectors", noops)
    rep.count("param-exhaustive" if exhaustive else "param-sampled")
    return exhaustive, noops


def check_mask(h, rep, where):
    env = h.env
    try:
        mask = env.get_action_mask()
    except Exception as e:
        raise Failure("C11:mask-error", f"{where}: get_action_mask() raised {type(e).__name__}: {e}")
    mask = np.asarray(mask)
    n = int(env.action_space.n)
    if mask.shape != (n,):
        raise Failure("C11:mask-shape", f"{where}: mask shape {mask.shape}, n={n}")
    st = h.dyn(env.current_state.tensor)
    want = np.array([1 if st[tuple(int(i) for i in a.target)][3] is True else 0 for a in env.action_space.actions])
    if not np.array_equal(mask, want):
        bad = np.flatnonzero(mask != want)[:5].tolist()
        raise Failure("C11:mask", f"{where}: mask differs from discovered(target) at indices {bad}: got {mask[bad].tolist()} expected {want[bad].tolist()}")
    vals = {v[3] for v in st.values()}
    if vals == {True, False}:
        rep.nontriv("mask", h.fp, M.state_key(st))
        rep.count("mask-mixed-states")
    rep.count("mask-checks")


def run_case(case, rep, record=True):
    failed = set()
    nops = 0

    def fail(f, upto):
        failed.add(f.bucket)
        if record:
            rep.fail(f.bucket, f.detail, dict(case, ops=list(case["ops"][:upto])))
    try:
        h = walk.build_harness(case["source"], {})
        spec, scn = h.spec, h.scn
        if record:
            rep.evaluated()
            rep.count("source:" + case["source"]["kind"])
        flat_set = check_flat(h, scn, rep)
        exhaustive, noops = check_param(h, scn, rep, flat_set, common.mix_seed(h.fp) % (2 ** 31))
        wrap = min(spec.subnets[1:]) < max(spec.subnets)
        if noops and wrap:
            rep.nontriv("space", h.fp)
        if record:
            rep.count("undefined-combination" if noops else "all-combinations-defined")
            rep.count("wraparound" if wrap else "no-wraparound")
            dup = len({(d["service"], d["os"]) for d in spec.exploits.values()}) < len(spec.exploits)
            if dup:
                rep.count("duplicate-exploit-definition")
        check_mask(h, rep, "initial state")
        for op in case["ops"]:
            nops += 1
            if op[0] == "x":
                h.reset()
                check_mask(h, rep, "after reset")
                continue
            if op[0] in ("g", "v", "c"):
                # what-if planning (generative steps on earlier states) and read-only queries do not move the
                # environment: the mask still describes the current state
                res = walk.run_history(h, [tuple(op)], lambda *a: None, None, both_sides=False, do_gen=False)
                check_mask(h, rep, "after " + {"g": "a generative step on a saved state", "v": "a query", "c": "continuing on a copy"}[op[0]])
                if record:
                    rep.count("mask-after-generative-or-query")
                if res == "diverged":
                    break
                continue
            if op[0] in ("o", "b"):
                continue
            act = h.choose(op)
            if op[0] == "s" and h.cross is not None:
                h.exec_gen(h.cross[0], h.cross[1], act, op[3], op[4])
                check_mask(h, rep, "after a generative step on a saved state")
            rec = h.exec_step(act, op[-2], op[-1])
            h.install(rec)
            check_mask(h, rep, f"after {act}")
            if h.diverged:
                break
        # the action space is a property of the scenario, not of the history: the same set, with the same
        # costs / probabilities, after the environment has been used (and for an environment made afterwards)
        try:
            check_flat(h, scn, rep)
        except Failure as f:
            raise Failure(f.bucket.split(":")[0] + ":" + f.bucket.split(":")[1] + "-after-history", "after the history: " + f.detail)
        if record:
            rep.count("flat-set-rechecked-after-history")
        # the mask must not depend on which environment was created last
        other = "small" if len(spec.addrs) != 8 else "tiny"
        import nasim
        foreign = sources.make_env(nasim.load_scenario(sources.shipped_path(other)))
        check_mask(h, rep, f"after another environment ({other}) was created")
        del foreign
        if record and len(rep.samples) < rep.max_samples:
            rep.sample(dict(source=case["source"]["kind"], flat_n=int(h.env.action_space.n),
                            exploits=spec.exploits, privescs=list(spec.privescs), subnets=spec.subnets,
                            param_exhaustive=exhaustive, noop_vectors=noops))
    except walk.SourceRejected as e:
        if record:
            rep.count(f"source-rejected({e.owner})")
    except Failure as f:
        fail(f, nops)
    except Exception as e:
        inside, where = engine.from_nasim(sys.exc_info()[2])
        if not inside:
            raise
        fail(Failure("C11:exception", f"{type(e).__name__}: {e} at {where}",
                     bucket=f"C11:exception:{type(e).__name__}@{where}"), nops)
    return failed


class _Runner:
    def __init__(self, rep):
        self.rep = rep

    def run(self, case, record=True):
        return run_case(case, self.rep, record)


def _shard(shard, seed, tier, n_cases):
    rep = Reporter(PID, tier, RULE)
    strat = engine.case_strategy(tier, dict(extras=False), weights=(12, 2, 6), min_ops=6, max_ops=30,
                                 resets=True, gens=True, queries=True)
    engine.drive(_Runner(rep), strat, n_cases, seed)
    return rep


def main(tier, replay=None):
    rep = Reporter(PID, tier, RULE, assumptions=[
        "parameter vector meaning as implemented and documented in ParameterisedActionSpace: [type, subnet-1, host mod subnet size, OS (0 = None), service index, process index]; the first definition per (service, OS) / (process, OS) is the one a vector names",
        "actions are compared through the public attributes of the Action objects (target, cost, prob, service/process, os, access)"])
    if replay:
        j, case = engine.load_replay(replay)
        failed = run_case(engine.case_from_json(case), rep)
        print(f"replay {replay}: failing buckets {sorted(failed)}")
        if failed:
            print(f"VIOLATION property={PID} replay={replay}")
            return 1
        return 0
    for name in sources.shipped_names():
        run_case(dict(source={"kind": "shipped", "name": name}, modes={},
                      ops=[("p", i * 5, "lo", i) for i in range(15)]), rep)
    nshards = 16 if tier == "thorough" else 8
    total = 16 * 1200 if tier == "thorough" else 320
    for p in engine.run_shards(_shard, nshards, common.verif_seed(), tier=tier, n_cases=total // nshards):
        rep.merge(p)
    runner = _Runner(Reporter(PID, tier, RULE))
    for bucket in list(rep.buckets):
        engine.minimise_bucket(runner, rep, bucket, budget=40)
    docs.cleanup()
    rep.exhaustive = None
    return rep.finish()
