"""C15 Generator returns a well-formed scenario for every valid parameter set."""
import math
import os
import sys

import numpy as np
from hypothesis import HealthCheck, Phase, given, settings, strategies as st
import hypothesis

from . import common, engine, sources
from .common import Failure, Reporter

PID = "C15"
LINE_BUDGET = 5_000_000
RULE = ("cases = parameter sets of nasim.generate_scenario drawn from the documented domain (num_hosts 3..12 quick / 3..60 thorough, "
        "1..5 (10) services, 1..4 OS, 1..4 processes, optional num_exploits <= S*(O+1), num_privescs <= P*(O+1), restrictiveness "
        "1..6, uniform/correlated, alpha_H/alpha_V/lambda_V in {0.01,0.5,1.0,2,5,50}, every exploit_probs/privesc_probs form, "
        "random_goal, values, costs, step limit, custom address bounds, any seed). Termination is decided by a deterministic "
        f"budget of {LINE_BUDGET} traced line events inside nasim/ (largest benchmark needs ~3e4); the returned scenario is checked "
        "field by field against the request. Non-trivial = parameter set that differs from every shipped generated benchmark "
        "definition in >= 2 coordinates; distinct by parameter set.")

BENCH_KEYS = ("num_hosts", "num_services", "num_os", "num_processes", "restrictiveness", "uniform", "alpha_H", "alpha_V", "lambda_V")


from .budget import BudgetExceeded, traced_call      # noqa: E402,F401


def expected_subnets(H):
    dmz = math.ceil(H / 40)
    sens = math.ceil(H / 41)
    user = H - dmz - sens
    subnets = [1, dmz, sens] + [5] * (user // 5)
    if user % 5:
        subnets.append(user % 5)
    return subnets


def check_scenario(p, scn):
    H, S = p["num_hosts"], p["num_services"]
    O, P = p.get("num_os", 2), p.get("num_processes", 2)
    NE = p.get("num_exploits") or S
    NP = p.get("num_privescs") or P
    r = p.get("restrictiveness", 5)

    def bad(clause, msg):
        raise Failure(f"C15:{clause}", msg)
    hosts = scn.hosts
    if len(hosts) != H:
        bad("hosts", f"{len(hosts)} hosts, requested {H}")
    subnets = [int(x) for x in scn.subnets]
    if subnets[0] != 1 or sum(subnets) - 1 != H or any(x < 1 for x in subnets):
        bad("subnets", f"subnets {subnets} do not hold {H} hosts")
    addrs = [(s, h) for s in range(1, len(subnets)) for h in range(subnets[s])]
    if sorted(tuple(int(i) for i in a) for a in hosts) != addrs:
        bad("addresses", f"host addresses {sorted(hosts)[:5]}.. do not match subnets {subnets}")
    if list(scn.os) != [str(x) for x in scn.os] or len(scn.os) != O or len(set(scn.os)) != O:
        bad("os-count", f"{len(scn.os)} OS, requested {O}")
    if len(scn.services) != S or len(set(scn.services)) != S:
        bad("service-count", f"{len(scn.services)} services, requested {S}")
    if len(scn.processes) != P or len(set(scn.processes)) != P:
        bad("process-count", f"{len(scn.processes)} processes, requested {P}")
    if len(scn.exploits) != NE:
        bad("exploit-count", f"{len(scn.exploits)} exploits, requested {NE}")
    if len(scn.privescs) != NP:
        bad("privesc-count", f"{len(scn.privescs)} escalations, requested {NP}")
    # topology
    T = np.asarray(scn.topology)
    n = len(subnets)
    if T.shape != (n, n):
        bad("topology-shape", f"topology {T.shape} for {n} subnets")
    if not np.array_equal(T, T.T) or not np.all(np.diag(T) == 1) or not np.all((T == 0) | (T == 1)):
        bad("topology-symmetric", "topology not symmetric / not self-connected / not 0-1")
    pub = [s for s in range(1, n) if T[s][0] == 1]
    if pub != [1]:
        bad("public", f"public subnets {pub}, expected only the DMZ [1]")
    # connected
    seen, todo = {0}, [0]
    while todo:
        a = todo.pop()
        for b in range(n):
            if T[a][b] == 1 and b not in seen:
                seen.add(b)
                todo.append(b)
    if len(seen) != n:
        bad("topology-connected", f"subnets {sorted(set(range(n)) - seen)} are not connected to the internet")
    # hosts
    for a, h in hosts.items():
        if tuple(h.address) != tuple(a):
            bad("host-address", f"host {a} carries address {h.address}")
        if list(h.os) != list(scn.os) or sum(1 for v in h.os.values() if v) != 1:
            bad("host-os", f"host {a} OS flags {h.os}")
        if list(h.services) != list(scn.services) or not any(h.services.values()):
            bad("host-services", f"host {a} services {h.services}")
        if list(h.processes) != list(scn.processes) or not any(h.processes.values()):
            bad("host-processes", f"host {a} processes {h.processes}")
        if float(h.discovery_value) != float(p.get("host_discovery_value", 1)):
            bad("discovery-value", f"host {a} discovery value {h.discovery_value}")
    # definitions
    ep = p.get("exploit_probs", 1.0)
    for i, (name, d) in enumerate(scn.exploits.items()):
        if d["service"] not in scn.services or not (d["os"] is None or d["os"] in scn.os):
            bad("exploit-names", f"exploit {name} references {d['service']}/{d['os']}")
        if float(d["cost"]) != float(p.get("exploit_cost", 1)):
            bad("exploit-cost", f"exploit {name} cost {d['cost']}")
        pr = float(d["prob"])
        if not (0.0 < pr <= 1.0):
            bad("exploit-prob-range", f"exploit {name} prob {pr}")
        if isinstance(ep, float) and pr != ep or isinstance(ep, list) and pr != ep[i] \
           or ep == "mixed" and pr not in (0.3, 0.6, 0.9):
            bad("exploit-prob", f"exploit {name} prob {pr}, requested {ep}")
        if d["access"] not in (1, 2):
            bad("exploit-access", f"exploit {name} access {d['access']}")
    if len({(d["service"], d["os"]) for d in scn.exploits.values()}) != NE:
        bad("exploit-distinct", "two exploits share (service, OS)")
    pp = p.get("privesc_probs", 1.0)
    for i, (name, d) in enumerate(scn.privescs.items()):
        if d["process"] not in scn.processes or not (d["os"] is None or d["os"] in scn.os):
            bad("privesc-names", f"escalation {name} references {d['process']}/{d['os']}")
        if float(d["cost"]) != float(p.get("privesc_cost", 1)):
            bad("privesc-cost", f"escalation {name} cost {d['cost']}")
        pr = float(d["prob"])
        if not (0.0 < pr <= 1.0):
            bad("privesc-prob-range", f"escalation {name} prob {pr}")
        if isinstance(pp, float) and pr != pp or isinstance(pp, list) and pr != pp[i]:
            bad("privesc-prob", f"escalation {name} prob {pr}, requested {pp}")
        if d["access"] not in (1, 2):
            bad("privesc-access", f"escalation {name} access {d['access']}")
    if len({(d["process"], d["os"]) for d in scn.privescs.values()}) != NP:
        bad("privesc-distinct", "two escalations share (process, OS)")
    # sensitive hosts
    sens = {tuple(int(i) for i in a): float(v) for a, v in scn.sensitive_hosts.items()}
    rs, ru = float(p.get("r_sensitive", 10)), float(p.get("r_user", 10))
    if len(sens) != 2 or sens.get((2, 0)) != rs:
        bad("sensitive", f"sensitive hosts {sens}, expected (2, 0): {rs} and one user host")
    (ua, uv), = [(a, v) for a, v in sens.items() if a != (2, 0)]
    if ua[0] < 3 or ua not in addrs or uv != ru:
        bad("sensitive-user", f"user sensitive host {ua}: {uv}, expected a user-subnet host worth {ru}")
    if not p.get("random_goal") and ua != (n - 1, subnets[-1] - 1):
        bad("sensitive-user-default", f"user sensitive host {ua}, expected {(n - 1, subnets[-1] - 1)}")
    base = float(p.get("base_host_value", 1))
    for a, h in hosts.items():
        want = sens.get(tuple(a), base)
        if float(h.value) != want:
            bad("host-value", f"host {a} value {h.value}, expected {want}")
    # firewall
    fw = {tuple(int(i) for i in k): v for k, v in scn.firewall.items()}
    want_keys = {(i, j) for i in range(n) for j in range(n) if i != j and T[i][j] == 1}
    if set(fw) != want_keys:
        bad("firewall-keys", f"firewall rules for {sorted(set(fw) ^ want_keys)[:6]} missing/superfluous")
    allsrv = set(scn.services)
    for (i, j), rule in fw.items():
        rule_l = list(rule)
        if len(set(rule_l)) != len(rule_l) or not set(rule_l) <= allsrv:
            bad("firewall-services", f"rule {(i, j)} = {rule_l}")
        if i > 2 and j > 2:
            if set(rule_l) != allsrv:
                bad("firewall-user", f"rule {(i, j)} between user subnets blocks {sorted(allsrv - set(rule_l))}")
        elif j != 0:
            if not (1 <= len(rule_l) <= r):
                bad("firewall-restrictiveness", f"rule {(i, j)} allows {len(rule_l)} services, restrictiveness {r}")
    # costs, limit, bounds
    for k, attr in (("service_scan_cost", scn.service_scan_cost), ("os_scan_cost", scn.os_scan_cost),
                    ("subnet_scan_cost", scn.subnet_scan_cost), ("process_scan_cost", scn.process_scan_cost)):
        if float(attr) != float(p.get(k, 1)):
            bad("scan-cost", f"{k} {attr}, requested {p.get(k, 1)}")
    if scn.step_limit != p.get("step_limit"):
        bad("step-limit", f"step limit {scn.step_limit}, requested {p.get('step_limit')}")
    wb = tuple(p["address_space_bounds"]) if p.get("address_space_bounds") else (n, max(subnets))
    if tuple(int(b) for b in scn.address_space_bounds) != wb:
        bad("bounds", f"address_space_bounds {scn.address_space_bounds}, expected {wb}")


def bench_distance(p):
    from nasim.scenarios.benchmark import AVAIL_GEN_BENCHMARKS
    best = 99
    for b in AVAIL_GEN_BENCHMARKS.values():
        d = sum(1 for k in BENCH_KEYS if p.get(k, _default(k)) != b.get(k, _default(k)))
        d += sum(1 for k in p if k not in BENCH_KEYS and k != "seed" and p[k] != b.get(k, None))
        best = min(best, d)
    return best


def _default(k):
    return dict(num_os=2, num_processes=2, restrictiveness=5, uniform=False, alpha_H=2.0, alpha_V=2.0, lambda_V=1.0).get(k)


_GEN = [None]


_HANGS = [0]


def run_params(p, rep, record=True, reuse=False):
    """reuse=True: generate on ONE long-lived ScenarioGenerator object (the documented class API) that has
    already produced other scenarios in this process"""
    import nasim
    failed = set()
    if record and _HANGS[0] >= 12:
        # twelve generations of this shard already ran into the line budget (each costs seconds):
        # they are reported; the remaining parameter sets are counted, not generated
        rep.count("skipped-after-12-non-terminating-generations")
        return failed
    if record:
        rep.evaluated()
    try:
        try:
            if reuse:
                from nasim.scenarios.generator import ScenarioGenerator
                if _GEN[0] is None:
                    _GEN[0] = ScenarioGenerator()
                scn, lines = traced_call(lambda: _GEN[0].generate(**p))
                if record:
                    rep.count("generated-on-a-reused-generator-object")
            else:
                scn, lines = traced_call(lambda: nasim.generate_scenario(**p))
        except BudgetExceeded:
            _HANGS[0] += 1
            raise Failure("C15:termination", f"generate_scenario(**{p}) did not return within {LINE_BUDGET} traced lines")
        except Failure:
            raise
        except Exception as e:
            inside, where = engine.from_nasim(sys.exc_info()[2])
            if not inside:
                raise
            raise Failure("C15:exception", f"generate_scenario(**{p}) raised {type(e).__name__}: {e} at {where}",
                          bucket=f"C15:exception:{type(e).__name__}@{where}")
        check_scenario(p, scn)
        if record:
            rep.extra["max_traced_lines"] = max(rep.extra.get("max_traced_lines", 0), lines)
            if bench_distance(p) >= 2:
                rep.nontriv(sorted((k, str(v)) for k, v in p.items()))
            rep.count("uniform" if p.get("uniform") else "correlated")
            if p.get("alpha_V") == 1.0:
                rep.count("alpha_V=1.0")
            if (p.get("num_privescs") or 0) > (p.get("num_processes") or 2):
                rep.count("num_privescs>num_processes")
            if p.get("address_space_bounds"):
                rep.count("custom-bounds")
            for k in ("exploit_probs", "privesc_probs"):
                v = p.get(k, "default")
                rep.count(f"{k}:" + ("list" if isinstance(v, list) else "float" if isinstance(v, float) else str(v)))
            if len(rep.samples) < rep.max_samples:
                rep.sample(dict(params=p, subnets=list(scn.subnets), exploits=len(scn.exploits), traced_lines=lines))
    except Failure as f:
        failed.add(f.bucket)
        if record:
            rep.fail(f.bucket, f.detail, dict(params=p))
    return failed


def _shard(shard, seed, tier, n_cases):
    rep = Reporter(PID, tier, RULE)
    cnt = [0]
    strat = engine.weighted([
        (6, sources.gen_params(max_hosts=60 if tier == "thorough" else 12, max_services=14 if tier == "thorough" else 12)),
        (1, sources.gen_params_many_features()),
        (1, sources.gen_params_large()),
        (1, sources.gen_params_near_capacity()),
        (1, sources.gen_params_many_probabilities()),
        (1, sources.gen_params_huge())])

    @hypothesis.seed(seed)
    @settings(max_examples=n_cases, deadline=None, database=None, phases=[Phase.generate],
              suppress_health_check=list(HealthCheck))
    @given(p=strat, follow=st.integers(0, 7))
    def t(p, follow):
        run_params(p, rep)
        if p.get("exploit_probs", 1) is None and p.get("privesc_probs", 1) is None and (p.get("num_exploits") or 0) > 100:
            # hundreds of sampled probabilities per scenario: three more seeds, spread by a hash (Hypothesis
            # repeats simple examples, and the ends of (0, 1] are only visited by many distinct draws)
            for k in range(3):
                cnt[0] += 1
                run_params(dict(p, seed=common.mix_seed(seed, "many-probabilities", shard, cnt[0]) % 2**32), rep)
            rep.count("sampled-probabilities-extra-seeds", 3)
        if follow <= 2 and p["num_hosts"] <= 20:
            # the same request again, then a request that differs in ONE count, on a reused generator object
            run_params(p, rep, reuse=True)
            q = dict(p)
            key = ("num_processes", "num_os", "num_services")[follow]
            q[key] = q.get(key, 2) + 1 if q.get(key, 2) < 3 else q.get(key, 2) - 1
            for k in ("num_exploits", "num_privescs"):
                q.pop(k, None)
            if isinstance(q.get("exploit_probs"), list):
                q["exploit_probs"] = 0.5
            if isinstance(q.get("privesc_probs"), list):
                q["privesc_probs"] = 0.75
            if q.get("uniform") and q["num_services"] > 8:
                q["uniform"] = False
                q.setdefault("alpha_H", 2.0); q.setdefault("alpha_V", 2.0); q.setdefault("lambda_V", 1.0)
            run_params(q, rep, reuse=True)
    t()
    return rep


def main(tier, replay=None):
    rep = Reporter(PID, tier, RULE, assumptions=[
        "documented domain: num_exploits <= S*(O+1) and num_privescs <= P*(O+1) (more distinct definitions cannot exist), uniform only with <= 8 services",
        f"'terminates' means: returns within {LINE_BUDGET} traced line events in nasim/ (>= 150x the largest benchmark)",
        "probabilities drawn by exploit_probs=None are taken from [0,1); the value 0.0 (probability 2^-53) is not generated"])
    if replay:
        import json
        j = json.load(open(replay))
        p = dict(j["case"]["params"])
        if p.get("address_space_bounds"):
            p["address_space_bounds"] = tuple(p["address_space_bounds"])
        failed = run_params(p, rep)
        print(f"replay {replay}: failing buckets {sorted(failed)}")
        if failed:
            print(f"VIOLATION property={PID} replay={replay}")
            return 1
        return 0
    # regression corpus: the parameter sets of the repaired defects + benchmark definitions
    from nasim.scenarios.benchmark import AVAIL_GEN_BENCHMARKS
    corpus = [dict(num_hosts=8, num_services=3, alpha_V=1.0, seed=0),
              dict(num_hosts=4, num_services=2, num_os=2, num_processes=2, num_privescs=5, seed=0),
              dict(num_hosts=4, num_services=2, num_os=2, num_processes=2, num_privescs=6, seed=1),
              dict(num_hosts=5, num_services=1, num_os=3, num_processes=1, num_privescs=2, seed=3)]
    for name, b in AVAIL_GEN_BENCHMARKS.items():
        if tier == "thorough" or b["num_hosts"] <= 40:
            q = {k: v for k, v in b.items() if k not in ("max_score", "file")}
            q["seed"] = 0
            corpus.append(q)
    for p in corpus:
        run_params(p, rep)
    # finite grid, enumerated completely: every small shape x both host-configuration modes x 3 seeds
    grid = 0
    for H in range(3, 9 if tier == "quick" else 13):
        for S in (1, 2, 3):
            for O in (1, 2, 3):
                for P in (1, 2):
                    for uniform in (False, True):
                        for sd in (0, 1, 2):
                            run_params(dict(num_hosts=H, num_services=S, num_os=O, num_processes=P, uniform=uniform,
                                            restrictiveness=1 + (H + S + O) % 3, seed=sd), rep)
                            grid += 1
    rep.extra["exhaustive_grid_parameter_sets"] = grid
    nshards = 16 if tier == "thorough" else 8
    total = 16 * 5000 if tier == "thorough" else 4000
    for part in engine.run_shards(_shard, nshards, common.verif_seed(), tier=tier, n_cases=total // nshards):
        rep.merge(part)
    return rep.finish()
