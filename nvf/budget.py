"""Deterministic termination guard: run a callable while counting 'line' trace
events inside nasim/ frames; abort beyond a budget (used for every call of the
scenario generator, whose retry loops may not terminate)."""
import os
import sys

from . import common

GEN_BUDGET = 5_000_000          # C15's own budget (>= 100x the largest generation measured: 5e4 lines for 200 hosts)
OTHER_BUDGET = 2_000_000        # checks that merely use generated scenarios
HITS = [0]                      # generations aborted in this process
MAX_HITS = 8                    # after that many, generated sources are skipped without trying


def guarded_generate(fn):
    """fn() under OTHER_BUDGET; raises BudgetExceeded (also immediately once the
    generator has hung MAX_HITS times in this process - the tree is broken for C15
    and the other checks must stay fast)"""
    if HITS[0] >= MAX_HITS:
        raise BudgetExceeded()
    try:
        return traced_call(fn, OTHER_BUDGET)[0]
    except BudgetExceeded:
        HITS[0] += 1
        raise


class BudgetExceeded(BaseException):
    pass


def traced_call(fn, budget=GEN_BUDGET):
    root = os.path.join(common.REPO, "nasim") + os.sep
    count = [0]

    def local(frame, event, arg):
        if event == "line":
            count[0] += 1
            if count[0] > budget:
                raise BudgetExceeded()
        return local

    def tracer(frame, event, arg):
        if frame.f_code.co_filename.startswith(root):
            return local
        return None
    old = sys.gettrace()
    sys.settrace(tracer)
    try:
        return fn(), count[0]
    finally:
        sys.settrace(old)
