"""Independent decoding of state / observation arrays by the DOCUMENTED layout:

  subnet one-hot (bounds[0]) | host one-hot (bounds[1]) | compromised |
  reachable | discovered | value | discovery value | access |
  one flag per OS | per service | per process     (scenario order)

computed from the scenario source only (never through HostVector's private
index constants).
"""
import numpy as np


class Layout:
    def __init__(self, spec):
        b0, b1 = spec.bounds
        self.b0, self.b1 = int(b0), int(b1)
        self.i_comp = self.b0 + self.b1
        self.i_reach = self.i_comp + 1
        self.i_disc = self.i_comp + 2
        self.i_value = self.i_comp + 3
        self.i_dvalue = self.i_comp + 4
        self.i_access = self.i_comp + 5
        self.i_os = self.i_comp + 6
        self.i_srv = self.i_os + len(spec.os)
        self.i_proc = self.i_srv + len(spec.services)
        self.width = self.i_proc + len(spec.processes)
        self.os, self.services, self.processes = spec.os, spec.services, spec.processes
        self.n_hosts = len(spec.addrs)

    # feature groups -> column index lists
    def cols(self, group):
        if group == "address":
            return list(range(0, self.i_comp))
        if group == "os":
            return list(range(self.i_os, self.i_srv))
        if group == "services":
            return list(range(self.i_srv, self.i_proc))
        if group == "processes":
            return list(range(self.i_proc, self.width))
        return [dict(compromised=self.i_comp, reachable=self.i_reach,
                     discovered=self.i_disc, value=self.i_value,
                     discovery_value=self.i_dvalue, access=self.i_access)[group]]

    def row_address(self, row):
        """(subnet, host) from the one-hot parts, or None when not one-hot."""
        sub = np.flatnonzero(row[0:self.b0])
        hst = np.flatnonzero(row[self.b0:self.b0 + self.b1])
        if len(sub) != 1 or len(hst) != 1:
            return None
        if row[sub[0]] != 1 or row[self.b0 + hst[0]] != 1:
            return None
        return (int(sub[0]), int(hst[0]))

    def decode_row(self, row):
        return dict(
            address=self.row_address(row),
            compromised=float(row[self.i_comp]),
            reachable=float(row[self.i_reach]),
            discovered=float(row[self.i_disc]),
            value=float(row[self.i_value]),
            discovery_value=float(row[self.i_dvalue]),
            access=float(row[self.i_access]),
            os={n: float(row[self.i_os + i]) for i, n in enumerate(self.os)},
            services={n: float(row[self.i_srv + i]) for i, n in enumerate(self.services)},
            processes={n: float(row[self.i_proc + i]) for i, n in enumerate(self.processes)},
        )

    def row_map(self, tensor):
        """address -> row index, learnt from the one-hot address columns of a
        full state tensor.  Raises ValueError if a row has no valid address or
        addresses repeat."""
        out = {}
        for i in range(tensor.shape[0]):
            a = self.row_address(tensor[i])
            if a is None or a in out:
                raise ValueError(f"row {i} has no unique one-hot address: {a}")
            out[a] = i
        return out

    def dyn_state(self, tensor, rowmap):
        """model-style dynamic state {addr: (comp, acc, reach, disc)} (raw
        floats converted only when they are exact 0/1/2 values)."""
        st = {}
        for a, i in rowmap.items():
            r = tensor[i]
            st[a] = (_b(r[self.i_comp]), _i(r[self.i_access]),
                     _b(r[self.i_reach]), _b(r[self.i_disc]))
        return st

    def static_part(self, tensor):
        """copy of all columns that must never change"""
        t = np.array(tensor, copy=True)
        t[:, [self.i_comp, self.i_reach, self.i_disc, self.i_access]] = 0
        return t


def _b(x):
    x = float(x)
    if x == 0.0:
        return False
    if x == 1.0:
        return True
    return x          # not a boolean: visible to the comparing oracle


def _i(x):
    x = float(x)
    if x in (0.0, 1.0, 2.0):
        return int(x)
    return x
