"""C14 Seeded runs and seeded generation are reproducible (in-process and
across processes / PYTHONHASHSEED values)."""
import hashlib
import json
import os
import subprocess
import sys
import tempfile

import numpy as np
from hypothesis import HealthCheck, Phase, given, settings, strategies as st
import hypothesis

from . import common, docs, engine, model as M, sources, walk
from .common import Failure, Reporter

PID = "C14"
RULE = ("cases = (a) generator parameter sets + seed (biased to >= 4 services with restrictiveness below the number of vulnerable "
        "services, the region where firewall rules are sampled) and all generated benchmarks: canonical scenario fingerprint "
        "computed twice in-process and in fresh subprocesses with different PYTHONHASHSEED values, all must be equal; (b) "
        "(scenario, np.random seed, flat action list): sha256 of the whole trajectory (observation bytes, rewards, flags, canonical "
        "info) twice in-process and once in a subprocess. Non-trivial = generated scenario with an inter-zone firewall rule that "
        "was chosen by sampling (rule size == restrictiveness < number of vulnerable services of the destination subnet), or a "
        "trajectory with at least one chance-decided step; distinct by parameter set / (scenario, seed, actions). (c) generation without "
        "a seed argument after np.random.seed(g) (generated benchmarks via make_benchmark_scenario, parameter sets via generate_scenario): "
        "twice in-process with an explicitly seeded call of the same entry point in between, and in fresh subprocesses.")


def scenario_fingerprint(scn):
    """canonical, order-insensitive where the container is a set"""
    d = scn.scenario_dict
    hosts = {}
    for a, h in scn.hosts.items():
        hosts[str(tuple(int(i) for i in a))] = dict(
            os={str(k): bool(v) for k, v in h.os.items()},
            services={str(k): bool(v) for k, v in h.services.items()},
            processes={str(k): bool(v) for k, v in h.processes.items()},
            firewall={str(k): sorted(str(x) for x in v) for k, v in h.firewall.items()},
            value=float(h.value), dvalue=float(h.discovery_value))
    fp = dict(
        subnets=[int(x) for x in scn.subnets],
        topology=np.asarray(scn.topology).astype(int).tolist(),
        os=[str(x) for x in scn.os], services=[str(x) for x in scn.services],
        processes=[str(x) for x in scn.processes],
        sensitive={str(tuple(int(i) for i in a)): float(v) for a, v in scn.sensitive_hosts.items()},
        exploits=[[str(n), str(e["service"]), None if e["os"] is None else str(e["os"]), float(e["prob"]), float(e["cost"]), int(e["access"])]
                  for n, e in scn.exploits.items()],
        privescs=[[str(n), str(e["process"]), None if e["os"] is None else str(e["os"]), float(e["prob"]), float(e["cost"]), int(e["access"])]
                  for n, e in scn.privescs.items()],
        firewall={str(tuple(int(i) for i in k)): sorted(str(x) for x in v) for k, v in scn.firewall.items()},
        hosts=hosts, host_order=[str(tuple(int(i) for i in a)) for a in scn.hosts],
        scan_costs=[float(scn.service_scan_cost), float(scn.os_scan_cost), float(scn.subnet_scan_cost), float(scn.process_scan_cost)],
        step_limit=scn.step_limit, bounds=[int(b) for b in scn.address_space_bounds], name=str(scn.name))
    return hashlib.sha256(json.dumps(fp, sort_keys=True).encode()).hexdigest()


class GenerationHangs(Exception):
    pass


def build_scenario(src):
    import nasim
    from .budget import BudgetExceeded, guarded_generate
    if src["kind"] == "gen":
        try:
            return guarded_generate(lambda: nasim.generate_scenario(**src["params"]))
        except BudgetExceeded:
            raise GenerationHangs("generate_scenario did not return within the line budget (C15)")
    if src["kind"] == "bench":
        try:
            return guarded_generate(lambda: nasim.make_benchmark_scenario(src["name"], src["seed"]))
        except BudgetExceeded:
            raise GenerationHangs("make_benchmark_scenario did not return within the line budget (C15)")
    if src["kind"] == "shipped":
        return nasim.load_scenario(sources.shipped_path(src["name"]))
    if src["kind"] == "doc":
        return sources.scenario_from_doc(src["doc"])
    raise ValueError(src)


def trajectory_hash(src, seed, actions, modes):
    from .oracles import canon_info
    scn = build_scenario(src)
    env = sources.make_env(scn, **modes)
    H = hashlib.sha256()
    np.random.seed(seed)
    o, _ = env.reset()
    H.update(np.asarray(o).tobytes())
    flat = hasattr(env.action_space, "n")
    n = env.action_space.n if flat else None
    nvec = None if flat else [int(x) for x in env.action_space.nvec]
    chance = 0
    for k, a in enumerate(actions):
        if flat:
            act = env.action_space.actions[a % n]
            o, r, d, t, info = env.step(int(a % n))
        else:
            # parameter vectors derived from the action numbers (exploits / escalations on the first hosts mostly)
            x = int(a) * 2654435761 + k
            v = [(x >> 3) % 2 if k % 3 else x % nvec[0], (x >> 5) % nvec[1], (x >> 9) % nvec[2], (x >> 13) % nvec[3],
                 (x >> 17) % nvec[4], (x >> 21) % nvec[5]]
            act = env.action_space.get_action(v)
            o, r, d, t, info = env.step(v)
        H.update(np.asarray(o).tobytes())
        H.update(repr((float(r), bool(d), bool(t))).encode())
        H.update(json.dumps(canon_info(info), sort_keys=True).encode())
        if info["undefined_error"] or (info["success"] and act.prob < 1.0):
            chance += 1
    H.update(env.current_state.tensor.tobytes())
    return H.hexdigest(), chance


def concretise(src, seed, ops, modes):
    """model-guided ops -> concrete flat indices, following the REAL outcomes of
    one seeded run (np.random is seeded once, never per step), so that the
    trajectory reaches chance-decided exploits and escalations."""
    h = walk.build_harness(src, modes)
    np.random.seed(seed)
    h.env.reset()
    acts = []
    for op in ops:
        if op[0] in ("o", "b"):
            continue
        act = h.choose(op)
        i = h.real_index[act.key()]
        pre = h.mst
        h.env.step(int(i))
        h.mst = h.dyn(h.env.current_state.tensor)
        h.last_act = act
        if act.kind == "exploit" and not pre[act.target][0] and h.mst[act.target][0] is True:
            h.last_comp = act.target
        acts.append(int(i))
    return acts


def same_object_replay(src, seed, actions, modes):
    """On ONE environment object: seed, run generative steps from the initial
    state; seed identically again, repeat the same calls -> identical results.
    (Hidden buffers of pre-drawn random numbers survive a re-seed.)"""
    from .oracles import canon_info
    scn = build_scenario(src)
    env = sources.make_env(scn, **modes)
    env.reset()
    n = env.action_space.n
    state = env.current_state

    def run():
        np.random.seed(seed)
        # (looking at the environment is not part of the trajectory: the first call builds the renderer)
        import contextlib
        import io
        with contextlib.redirect_stdout(io.StringIO()):
            try:
                env.render_state()
                env.render_obs()
            except Exception:
                pass
        out = []
        st_ = state
        for a in actions[:40]:
            ns, obs, r, d, info = env.generative_step(st_, int(a % n))
            out.append((ns.tensor.tobytes(), float(r), bool(d), json.dumps(canon_info(info), sort_keys=True)))
            st_ = ns
        return out
    first = run()
    second = run()
    for i, (x, y) in enumerate(zip(first, second)):
        if x != y:
            return i
    # the same (state, action, seed) gives the same result whatever the object did in between: step through
    # the history keeping the states, reset, then repeat every recorded step as a generative step on the kept state
    kept = []
    env.reset()
    for j, a in enumerate(actions[:40]):
        st_ = env.current_state
        np.random.seed(seed + j)
        o, r, d, t, info = env.step(int(a % n))
        kept.append((st_, int(a % n), env.current_state.tensor.tobytes(), float(r), bool(d), json.dumps(canon_info(info), sort_keys=True)))
    env.reset()
    # (latest states first: nothing the replay itself does can prepare the environment for them)
    for j, (st_, a, nt, r, d, inf) in reversed(list(enumerate(kept))):
        np.random.seed(seed + j)
        ns, obs, r2, d2, info2 = env.generative_step(st_, a)
        if (ns.tensor.tobytes(), float(r2), bool(d2), json.dumps(canon_info(info2), sort_keys=True)) != (nt, r, d, inf):
            return f"{j} (replayed on the kept state after reset())"
    return None


def generator_object_reuse(params, expected):
    """the documented class API: one ScenarioGenerator object generating the same
    (parameters, seed) three times (another parameter set in between) must return
    the scenario a fresh object returns"""
    from nasim.scenarios.generator import ScenarioGenerator
    from .budget import BudgetExceeded, guarded_generate
    g = ScenarioGenerator()
    try:
        for k in range(3):
            scn = guarded_generate(lambda: g.generate(**params))
            if scenario_fingerprint(scn) != expected:
                return k + 1
            if k == 0:
                other = dict(params, seed=((params.get("seed") or 0) + 1) % 2**32, num_hosts=params["num_hosts"] + 1)
                other.pop("address_space_bounds", None)
                guarded_generate(lambda: g.generate(**other))
    except BudgetExceeded:
        return None
    except Exception as e:
        import sys
        inside, where = engine.from_nasim(sys.exc_info()[2])
        if not inside:
            raise
        return f"{k + 1} raises {type(e).__name__} at {where} and therefore"
    return None


def worker_main(path):
    """subprocess entry: compute fingerprints / trajectory hashes for a batch"""
    jobs = json.load(open(path))
    out = []
    for j in jobs:
        try:
            if j["what"] == "fp":
                src = engine.case_from_json(dict(source=j["source"], ops=[]))["source"] if j["source"]["kind"] in ("gen", "doc") else j["source"]
                out.append(scenario_fingerprint(build_scenario(src)))
            elif j["what"] == "fpg":
                src = engine.case_from_json(dict(source=j["source"], ops=[]))["source"] if j["source"]["kind"] in ("gen", "doc") else j["source"]
                np.random.seed(j["gseed"])
                out.append(scenario_fingerprint(build_scenario(src)))
            else:
                src = engine.case_from_json(dict(source=j["source"], ops=[]))["source"] if j["source"]["kind"] in ("gen", "doc") else j["source"]
                out.append(trajectory_hash(src, j["seed"], j["actions"], j["modes"])[0])
        except Exception as e:
            out.append(f"ERROR {type(e).__name__}: {e}")
    print("RESULT " + json.dumps(out))


def run_worker(jobs, hashseed):
    fd, path = tempfile.mkstemp(prefix="nvf_c14_", suffix=".json", dir=os.environ.get("NVF_TMP") or None)
    with os.fdopen(fd, "w") as f:
        json.dump(common.jsonable(jobs), f)
    env = dict(os.environ, PYTHONHASHSEED=str(hashseed), PYTHONPATH=f"{common.VERIF}:{common.REPO}",
               PYTHONDONTWRITEBYTECODE="1")
    try:
        r = subprocess.run([sys.executable, "-c", "import sys; from nvf import check_c14; check_c14.worker_main(sys.argv[1])", path],
                           capture_output=True, text=True, env=env, timeout=3600, cwd=common.VERIF)
    finally:
        os.unlink(path)
    for line in r.stdout.splitlines():
        if line.startswith("RESULT "):
            return json.loads(line[7:])
    raise RuntimeError(f"C14 worker failed (rc={r.returncode}): {r.stderr[-2000:]}")


def sampled_rule(scn, params):
    """does the scenario contain an inter-zone rule that was chosen by sampling?"""
    spec = M.Spec.from_scenario(scn)
    r = params.get("restrictiveness", 5)
    vuln = {}
    for a, h in spec.hosts.items():
        for e in spec.exploits.values():
            if e["service"] in h["services"] and (e["os"] is None or e["os"] == h["os"]):
                vuln.setdefault(a[0], set()).add(e["service"])
    for (i, j), rule in spec.firewall.items():
        if j == 0 or (i > 2 and j > 2):
            continue
        if len(rule) == r and len(vuln.get(j, ())) > r:
            return True
    return False


@st.composite
def c14_params(draw, tier):
    p = draw(sources.gen_params(max_hosts=40 if tier == "thorough" else 14, max_services=8))
    if draw(st.integers(0, 9)) < 7:
        p["num_services"] = draw(st.integers(4, 8))
        p.pop("num_exploits", None)
        if isinstance(p.get("exploit_probs"), list):
            p["exploit_probs"] = 0.5
        if draw(st.booleans()):
            p["num_exploits"] = draw(st.integers(p["num_services"], p["num_services"] * (p["num_os"] + 1)))
        p["restrictiveness"] = draw(st.integers(1, 3))
        if not p.get("uniform"):
            p["lambda_V"] = draw(st.sampled_from([2.0, 5.0, 1.0]))
    return p


def main(tier, replay=None):
    import nasim
    seed = common.verif_seed()
    rep = Reporter(PID, tier, RULE, assumptions=[
        "PYTHONHASHSEED values are sampled (quick 3, thorough 8 fixed values derived from VERIF_SEED), not enumerated",
        "the fingerprint treats firewall allow-lists as sets (their element order is not part of the scenario)"])
    if replay:
        j = json.load(open(replay))
        jobs = [j["case"]["job"]]
        res = [run_worker(jobs, hs)[0] for hs in (0, 1, 2, 3)]
        print("replay results per PYTHONHASHSEED 0..3:", res)
        if len(set(res)) > 1 or any(str(r).startswith("ERROR") for r in res):
            print(f"VIOLATION property={PID} replay={replay}")
            return 1
        return 0
    n_params = 3000 if tier == "thorough" else 200
    n_traj = 1200 if tier == "thorough" else 60
    hashseeds = [0] + [1 + common.mix_seed(seed, "hs", i) % 4000000000 for i in range(7 if tier == "thorough" else 2)]

    # ---- generate the cases with Hypothesis (generation phase only)
    plist, tlist = [], []

    @hypothesis.seed(common.mix_seed(seed, "c14p"))
    @settings(max_examples=n_params, deadline=None, database=None, phases=[Phase.generate], suppress_health_check=list(HealthCheck))
    @given(p=c14_params(tier))
    def gp(p):
        plist.append(p)
    gp()

    @hypothesis.seed(common.mix_seed(seed, "c14t"))
    @settings(max_examples=n_traj, deadline=None, database=None, phases=[Phase.generate], suppress_health_check=list(HealthCheck))
    @given(src=engine.source_strategy(tier, dict(extras=True), weights=(8, 6, 6), gen_max_hosts=12),
           s=st.integers(0, 2**31 - 1), ops=st.lists(engine.op_strategy(resets=False, gens=False), min_size=20, max_size=80),
           modes=engine.MODES)
    def gt(src, s, ops, modes):
        param = not modes["flat_actions"]
        modes = dict(modes, flat_actions=True)
        try:
            acts = concretise(src, s, ops, modes)
        except walk.SourceRejected:
            return
        except Failure:
            # the model-guided choice of actions needs the initial state to decode (C09's business); reproducibility
            # is still decided - on a plain list of action indices
            acts = [int(o[1]) if len(o) > 1 and isinstance(o[1], int) else 0 for o in ops]
            rep.count("trajectory-without-model-guidance(setup failed: other property)")
        tlist.append(dict(what="traj", source=src, seed=s, actions=acts, modes=modes))
        if param or src["kind"] == "doc":
            # the same trajectory numbers through the parameterised space (vectors)
            tlist.append(dict(what="traj", source=src, seed=s, actions=acts, modes=dict(modes, flat_actions=False)))
    gt()

    from nasim.scenarios.benchmark import AVAIL_GEN_BENCHMARKS
    jobs = [dict(what="fp", source={"kind": "gen", "params": p}) for p in plist]
    for name, b in AVAIL_GEN_BENCHMARKS.items():
        if tier == "thorough" or b["num_hosts"] <= 40:
            for s in ((0, 1, 2) if tier == "thorough" else (0, 1)):
                jobs.append(dict(what="fp", source={"kind": "bench", "name": name, "seed": s}))
    # (c) generation WITHOUT a seed argument draws from the global generator: seeded identically it must give the
    # identical scenario whatever was generated before in the process (an explicitly seeded call in between) and in
    # a fresh process
    for k, (name, b) in enumerate(AVAIL_GEN_BENCHMARKS.items()):
        if tier == "thorough" or b["num_hosts"] <= 40:
            jobs.append(dict(what="fpg", source={"kind": "bench", "name": name, "seed": None}, gseed=1000 + k))
    for k, p in enumerate(plist[:60 if tier == "thorough" else 12]):
        jobs.append(dict(what="fpg", source={"kind": "gen", "params": {a: v for a, v in p.items() if a != "seed"}}, gseed=77 + k))
    jobs += tlist
    # in-process, twice
    first, second, chance_steps = [], [], []
    for j in jobs:
        try:
            if j["what"] == "fp":
                scn = build_scenario(j["source"])
                first.append(scenario_fingerprint(scn))
                second.append(scenario_fingerprint(build_scenario(j["source"])))
                if j["source"]["kind"] == "gen" and len(first) % 4 == 0 and isinstance(j["source"]["params"].get("seed"), int):
                    # the same seed as a NumPy integer (np.arange, rng.integers ... hand those out)
                    sd = j["source"]["params"]["seed"]
                    npseed = np.int64(sd) if len(first) % 8 else np.uint32(sd)
                    alt = scenario_fingerprint(build_scenario(dict(j["source"], params=dict(j["source"]["params"], seed=npseed))))
                    if alt != first[-1]:
                        rep.fail("C14:numpy-integer-seed", f"generate_scenario(seed={type(npseed).__name__}({sd})) differs from seed={sd}", dict(job=j))
                    rep.count("seed-as-numpy-integer")
                if j["source"]["kind"] == "gen":
                    reuse = generator_object_reuse(j["source"]["params"], first[-1])
                    if reuse is not None:
                        rep.fail("C14:generator-object-reuse", f"one ScenarioGenerator object, generate(**params) called repeatedly with the same "
                                 f"parameters and seed: call {reuse} differs from the first", dict(job=j))
                    nt = sampled_rule(scn, j["source"]["params"])
                else:
                    nt = sampled_rule(scn, AVAIL_GEN_BENCHMARKS[j["source"]["name"]])
                chance_steps.append(1 if nt else 0)
            elif j["what"] == "fpg":
                np.random.seed(j["gseed"])
                scn = build_scenario(j["source"])
                first.append(scenario_fingerprint(scn))
                src7 = dict(j["source"], seed=7) if j["source"]["kind"] == "bench" else dict(j["source"], params=dict(j["source"]["params"], seed=7))
                build_scenario(src7)          # history: the same generator entry point called with an explicit seed
                np.random.seed(j["gseed"])
                second.append(scenario_fingerprint(build_scenario(j["source"])))
                chance_steps.append(1)
            else:
                h1, ch = trajectory_hash(j["source"], j["seed"], j["actions"], j["modes"])
                h2, _ = trajectory_hash(j["source"], j["seed"], j["actions"], j["modes"])
                bad = same_object_replay(j["source"], j["seed"], j["actions"], j["modes"]) if j["modes"].get("flat_actions", True) else None
                if bad is not None:
                    rep.fail("C14:reseeded-replay-differs", f"one environment object, np.random.seed({j['seed']}) then generative steps from the "
                             f"initial state, re-seeded identically and repeated: results differ at call {bad}", dict(job=j))
                first.append(h1)
                second.append(h2)
                chance_steps.append(ch)
        except GenerationHangs as e:
            first.append(f"ERROR {e}")
            second.append(first[-1])
            chance_steps.append(0)
        except Exception as e:
            inside, where = engine.from_nasim(sys.exc_info()[2])
            if not inside:
                raise
            first.append(f"ERROR {type(e).__name__} at {where}")
            second.append(first[-1])
            chance_steps.append(0)
    # subprocesses, one per hash seed (in parallel)
    from concurrent.futures import ThreadPoolExecutor
    okidx = [i for i in range(len(jobs)) if not str(first[i]).startswith("ERROR")]
    okjobs = [jobs[i] for i in okidx]
    with ThreadPoolExecutor(max_workers=min(8, len(hashseeds))) as ex:
        partial = list(ex.map(lambda hs: run_worker(okjobs, hs), hashseeds))
    results = []
    for res in partial:
        full = [None] * len(jobs)
        for i, r in zip(okidx, res):
            full[i] = r
        results.append(full)
    for i, j in enumerate(jobs):
        rep.evaluated()
        kind = {"fp": "generation", "fpg": "unseeded-generation-under-seeded-global-generator"}.get(j["what"], "trajectory")
        rep.count(kind)
        if str(first[i]).startswith("ERROR"):
            # generation failure: owned by C15
            rep.count("generator-raised(C15)")
            continue
        if chance_steps[i]:
            rep.nontriv(j)
            rep.count(f"{kind}:nontrivial")
        if second[i] != first[i]:
            rep.fail(f"C14:{kind}-differs-in-process", f"{kind} repeated in the same process gives {first[i][:12]} then {second[i][:12]}", dict(job=j))
            continue
        for hs, res in zip(hashseeds, results):
            if res[i] != first[i]:
                rep.fail(f"C14:{kind}-differs-across-processes",
                         f"{kind} in a subprocess with PYTHONHASHSEED={hs} gives {str(res[i])[:60]} instead of {first[i][:12]}; job {json.dumps(common.jsonable(j))[:400]}",
                         dict(job=j, hashseed=hs))
                break
        if len(rep.samples) < rep.max_samples and chance_steps[i]:
            rep.sample(dict(job={k: (v if k != "actions" else v[:10]) for k, v in j.items()}, fingerprint=first[i][:16],
                            hashseeds=hashseeds))
    rep.extra["hashseeds"] = hashseeds
    docs.cleanup()
    return rep.finish()
