"""Shared plumbing: paths, seeds, evidence, violation reporting, known findings.

Every check is `python -m nvf.runner <ID> --tier quick|thorough` and ends in
Reporter.finish(), which writes evidence/<ID>.json, prints VIOLATION /
KNOWN-FINDING lines and returns the exit status (0 ok, 1 violation,
2 harness error / inconclusive).
"""
import hashlib
import json
import os
import sys
import time
import traceback

VERIF = os.path.dirname(os.path.dirname(os.path.abspath(__file__)))
REPO = os.environ.get("NASIM_REPO", "/repo")
if REPO not in sys.path:
    sys.path.insert(0, REPO)

OUT = os.environ.get("NVF_OUT", VERIF)      # redirected when probing mutants
EVIDENCE_DIR = os.path.join(OUT, "evidence")
REPLAY_DIR = os.path.join(OUT, "replays")
CORPUS_DIR = os.path.join(VERIF, "corpus")


def verif_seed():
    try:
        return int(os.environ.get("VERIF_SEED", "1"))
    except ValueError:
        return 1


def mix_seed(*parts):
    """Deterministic 63-bit seed from ints/strings (no hash())."""
    h = hashlib.sha256("|".join(str(p) for p in parts).encode()).digest()
    return int.from_bytes(h[:8], "big") >> 1


def stable_hash(obj):
    return hashlib.sha256(
        json.dumps(jsonable(obj), sort_keys=True, default=str).encode()
    ).hexdigest()[:16]


def jsonable(x):
    """Convert numpy scalars / tuples / sets / tuple-keyed dicts to plain JSON."""
    import numpy as np
    if isinstance(x, dict):
        return {_key(k): jsonable(v) for k, v in x.items()}
    if isinstance(x, (list, tuple)):
        return [jsonable(v) for v in x]
    if isinstance(x, (set, frozenset)):
        return sorted((jsonable(v) for v in x), key=lambda v: json.dumps(v, sort_keys=True, default=str))
    if isinstance(x, np.ndarray):
        return jsonable(x.tolist())
    if isinstance(x, np.bool_):
        return bool(x)
    if isinstance(x, np.integer):
        return int(x)
    if isinstance(x, np.floating):
        return float(x)
    if isinstance(x, np.str_):
        return str(x)
    if isinstance(x, bytes):
        return x.hex()
    return x


def _key(k):
    import numpy as np
    if isinstance(k, tuple):
        return "(" + ", ".join(str(jsonable(i)) for i in k) + ")"
    if isinstance(k, (np.str_,)):
        return str(k)
    if k is None or isinstance(k, (bool, int, float)):
        return str(k)
    return k


class Failure(Exception):
    """An oracle failure: a property clause does not hold on a concrete case."""

    def __init__(self, clause, detail, bucket=None):
        super().__init__(f"{clause}: {detail}")
        self.clause = clause
        self.detail = detail
        self.bucket = bucket or clause


class Reporter:
    def __init__(self, pid, tier, rule, level="exploration", assumptions=None):
        self.pid = pid
        self.tier = tier
        self.rule = rule
        self.level = level
        self.assumptions = list(assumptions or [])
        self.t0 = time.time()
        self.evaluations = 0
        self.nontrivial = set()
        self.counters = {}
        self.samples = []
        self.max_samples = 5
        self.buckets = {}          # bucket -> dict(count, first_case, detail)
        self.known_hits = {}       # finding id -> count
        self.extra = {}
        self.exhaustive = None
        self.inconclusive = []
        kf = json.load(open(os.path.join(VERIF, "known_findings.json")))
        self.open_findings = [f for f in kf.get("open", []) if f.get("property") == pid]

    # ------------------------------------------------------------ counting
    def count(self, key, n=1):
        self.counters[key] = self.counters.get(key, 0) + n

    def evaluated(self, n=1):
        self.evaluations += n

    def nontriv(self, *key):
        self.nontrivial.add(stable_hash(key))

    def sample(self, obj, force=False):
        if len(self.samples) < self.max_samples or force:
            self.samples.append(jsonable(obj))

    # ------------------------------------------------------------ failures
    def fail(self, bucket, detail, case):
        """Record an oracle failure (first case of a bucket is kept)."""
        b = self.buckets.setdefault(bucket, dict(count=0, case=None, detail=None))
        b["count"] += 1
        if b["case"] is None:
            b["case"] = case
            b["detail"] = detail

    def known(self, finding_id, what):
        k = self.known_hits.setdefault(finding_id, dict(count=0, what=what))
        k["count"] += 1

    def seen(self, bucket):
        return bucket in self.buckets

    # ------------------------------------------------------------ sharding
    def partial(self):
        return dict(evaluations=self.evaluations, nontrivial=sorted(self.nontrivial),
                    counters=self.counters, samples=self.samples, buckets=self.buckets,
                    known_hits=self.known_hits, extra=self.extra,
                    inconclusive=self.inconclusive)

    def merge(self, part):
        self.evaluations += part["evaluations"]
        self.nontrivial.update(part["nontrivial"])
        for k, v in part["counters"].items():
            self.counters[k] = self.counters.get(k, 0) + v
        for s in part["samples"]:
            if len(self.samples) < self.max_samples:
                self.samples.append(s)
        for b, v in part["buckets"].items():
            mine = self.buckets.setdefault(b, dict(count=0, case=None, detail=None))
            mine["count"] += v["count"]
            if mine["case"] is None:
                mine["case"], mine["detail"] = v["case"], v["detail"]
        for k, v in part["known_hits"].items():
            mine = self.known_hits.setdefault(k, dict(count=0, what=v["what"]))
            mine["count"] += v["count"]
        for k, v in part["extra"].items():
            if k.startswith("max_"):
                self.extra[k] = max(self.extra.get(k, 0), v)
            elif isinstance(v, (int, float)) and not isinstance(v, bool):
                self.extra[k] = self.extra.get(k, 0) + v
            elif isinstance(v, list):
                self.extra.setdefault(k, [])
                self.extra[k] = (self.extra[k] + v)[:20]
            else:
                self.extra.setdefault(k, v)
        self.inconclusive += part.get("inconclusive", [])

    # ------------------------------------------------------------ finishing
    def finish(self):
        wall = time.time() - self.t0
        os.makedirs(EVIDENCE_DIR, exist_ok=True)
        status = 0
        viol_lines = []
        for fid, k in sorted(self.known_hits.items()):
            print(f"KNOWN-FINDING: property={self.pid} {k['what']} (hits={k['count']})")
        for bucket, b in sorted(self.buckets.items()):
            os.makedirs(REPLAY_DIR, exist_ok=True)
            case = dict(property=self.pid, bucket=bucket, detail=b["detail"],
                        count=b["count"], case=jsonable(b["case"]))
            name = f"{self.pid}-{_safe(bucket)}-{stable_hash(case['case'])}.json"
            path = os.path.join(REPLAY_DIR, name)
            with open(path, "w") as f:
                json.dump(case, f, indent=1, default=str)
            rel = os.path.relpath(path, VERIF) if OUT == VERIF else path
            print(f"  bucket {bucket}: {b['count']} failing case(s); first: {str(b['detail'])[:600]}")
            viol_lines.append(f"VIOLATION property={self.pid} replay={rel}")
            status = 1
        cov = dict(
            evaluations=int(self.evaluations),
            distinct_nontrivial=len(self.nontrivial),
            rule=self.rule,
            samples=self.samples if self.samples else ["(no sample recorded)"],
            classes=dict(sorted(self.counters.items())),
        )
        if self.exhaustive is not None:
            cov["exhaustive"] = bool(self.exhaustive)
        cov.update(jsonable(self.extra))
        if self.known_hits:
            cov["excluded_by_known_finding"] = {k: v["count"] for k, v in self.known_hits.items()}
        if self.inconclusive:
            cov["inconclusive"] = self.inconclusive
        ev = dict(
            property_id=self.pid, tier=self.tier, seed=verif_seed(),
            level=self.level, coverage=cov, assumptions=self.assumptions,
            wall_s=round(wall, 2), violations=len(self.buckets),
        )
        with open(os.path.join(EVIDENCE_DIR, f"{self.pid}.json"), "w") as f:
            json.dump(ev, f, indent=1, default=str)
        for l in viol_lines:
            print(l)
        print(f"[{self.pid}/{self.tier}] evaluations={self.evaluations} "
              f"distinct_nontrivial={len(self.nontrivial)} violations={len(self.buckets)} "
              f"wall={wall:.1f}s")
        if status == 0 and (self.evaluations < 1 or len(self.nontrivial) < 2):
            print(f"HARNESS: {self.pid} explored too little "
                  f"(evaluations={self.evaluations}, nontrivial={len(self.nontrivial)})")
            return 2
        return status


def _safe(s):
    return "".join(c if c.isalnum() or c in "-_" else "_" for c in str(s))[:60]


def harness_guard(fn):
    """Run a check main; any unexpected exception is a harness error (exit 2)."""
    try:
        return fn()
    except SystemExit:
        raise
    except BaseException:
        traceback.print_exc()
        print("HARNESS: unexpected exception in the checking machinery (not a violation)")
        return 2
