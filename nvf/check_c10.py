"""C10 Gymnasium contract: observations in space, every action of the space accepted."""
import sys
import itertools

import numpy as np
from hypothesis import strategies as st

from . import common, docs, draws, engine, model as M, sources, walk
from .common import Failure, Reporter

PID = "C10"
RULE = ("cases = scenario (S1 shipped incl. negative host values | S2 generated incl. custom bounds | S3 documents incl. "
        "negative / fractional values | S4 discovery values) x mode combination (all 8) x action history given in every "
        "accepted spelling (space.sample() after space.seed(n), python int, NumPy integer, list, tuple, ndarray, Action "
        "object); small flat spaces are stepped exhaustively. Every returned observation is checked against "
        "observation_space / advertised dims, every return value against the Gymnasium tuple shapes. Non-trivial = a step "
        "taken with an object returned by the space's own sampler; distinct by (scenario, modes, sampled action, step number).")

MODE_LIST = [dict(fully_obs=f, flat_actions=a, flat_obs=o)
             for f in (False, True) for a in (True, False) for o in (True, False)]


def check_obs(env, scn, obs, modes, where):
    if not isinstance(obs, np.ndarray):
        raise Failure("C10:obs-type", f"{where}: observation is {type(obs)}")
    if obs.dtype != np.float32:
        raise Failure("C10:obs-dtype", f"{where}: observation dtype {obs.dtype}")
    sp = env.observation_space
    if tuple(obs.shape) != tuple(sp.shape):
        raise Failure("C10:obs-shape", f"{where}: observation shape {obs.shape} != observation_space.shape {sp.shape}")
    dims = tuple(int(x) for x in scn.get_observation_dims())
    want = (dims[0] * dims[1],) if modes["flat_obs"] else dims
    if tuple(obs.shape) != want:
        raise Failure("C10:obs-dims", f"{where}: observation shape {obs.shape} != advertised {want} (flat_obs={modes['flat_obs']})")
    if not sp.contains(obs):
        lo, hi = float(np.min(sp.low)), float(np.max(sp.high))
        raise Failure("C10:obs-not-in-space", f"{where}: observation not in observation_space "
                      f"(min {obs.min()}, max {obs.max()}, space [{lo}, {hi}], dtype {obs.dtype}/{sp.dtype})")
    # the caller may do what it likes with the array it was given (normalise it in place, hand it to torch ...):
    # every later observation must still be a valid one
    _SCRIBBLE[0] += 1
    if obs.flags.writeable and _SCRIBBLE[0] % 3 == 0:
        obs[...] = -12345.0


_SCRIBBLE = [0]


def check_step_tuple(out, where):
    if not isinstance(out, tuple) or len(out) != 5:
        raise Failure("C10:step-tuple", f"{where}: step returned {type(out)} of length {len(out) if hasattr(out, '__len__') else '?'}")
    obs, rew, term, trunc, info = out
    if not isinstance(rew, (int, float, np.integer, np.floating)) or isinstance(rew, (bool, np.bool_)):
        raise Failure("C10:reward-type", f"{where}: reward is {type(rew)}")
    if not isinstance(term, (bool, np.bool_)) or not isinstance(trunc, (bool, np.bool_)):
        raise Failure("C10:flag-type", f"{where}: terminated/truncated are {type(term)}/{type(trunc)}")
    if not isinstance(info, dict):
        raise Failure("C10:info-type", f"{where}: info is {type(info)}")


def read_only(a):
    """a member of the space whatever its flags"""
    a.setflags(write=False)
    return a


def spellings(env, modes, i, k, vec_of):
    """the k-th accepted spelling of flat action i"""
    if modes["flat_actions"]:
        forms = [lambda: int(i), lambda: np.int64(i), lambda: np.int32(i), lambda: np.array(i)[()],
                 lambda: env.action_space.actions[i], lambda: np.uint16(i), lambda: np.uint64(i), lambda: np.int16(i)]
    else:
        v = vec_of(i)
        forms = [lambda: list(v), lambda: tuple(v), lambda: np.array(v, dtype=np.int64),
                 lambda: np.array(v, dtype=np.int32), lambda: env.action_space.actions[i],
                 lambda: np.array(v, dtype=np.uint8), lambda: np.array(v, dtype=np.uint32), lambda: np.array(v, dtype=np.int8),
                 lambda: read_only(np.array(v, dtype=np.int64)), lambda: np.frombuffer(np.array(v, dtype=np.int64).tobytes(), dtype=np.int64)]
    f = forms[k % len(forms)]
    return f(), k % len(forms)


CONTRACT_WORDS = ("observation", " obs", "action", "space", "tuple", "dtype", "shape", "bool", "float", "info", "contain", "return")


def gym_checker(scn, modes, rep, record):
    """Gymnasium's own contract checker (gymnasium.utils.env_checker.check_env) on a fresh environment of the
    scenario: it uses the environment the way the Gymnasium documentation says an environment is used.  An
    exception raised inside nasim while the checker drives it, or a complaint of the checker about observations /
    actions / spaces / returned tuples, is a C10 failure; other complaints (seeding determinism ...) are counted
    only - they are not part of this property."""
    import warnings
    from gymnasium.utils.env_checker import check_env
    env = sources.make_env(scn, **modes)
    try:
        with warnings.catch_warnings():
            warnings.simplefilter("ignore")
            check_env(env, skip_render_check=True)
        if record:
            rep.count("gymnasium-check_env-passed")
    except Exception as e:
        inside, where = engine.from_nasim(sys.exc_info()[2])
        msg = f"{type(e).__name__}: {str(e)[:300]}"
        if inside:
            raise Failure("C10:check_env-exception", f"gymnasium's check_env(env): nasim raised {msg} at {where}",
                          bucket=f"C10:check_env-exception:{type(e).__name__}@{where}")
        low = str(e).lower()
        if "seed" not in low and "determin" not in low and any(w in low for w in CONTRACT_WORDS):
            raise Failure("C10:check_env", f"gymnasium's check_env(env) rejects the environment: {msg}")
        if record:
            rep.count("gymnasium-check_env-complaint(not owned)")


def run_case(case, rep, record=True):
    failed = set()
    nops = 0

    def fail(f, upto):
        failed.add(f.bucket)
        if record:
            rep.fail(f.bucket, f.detail, dict(case, ops=list(case["ops"][:upto])))
    try:
        modes = dict(case["modes"])
        h = walk.build_harness(case["source"], modes, foreign=case.get("foreign"))
        env, scn, spec = h.env, h.scn, h.spec
        if record:
            rep.evaluated()
            rep.count("source:" + case["source"]["kind"])
            rep.count("modes:" + "".join(k[0:2] + str(int(v)) for k, v in sorted(modes.items())))
        out = env.reset()
        if not isinstance(out, tuple) or len(out) != 2 or not isinstance(out[1], dict):
            raise Failure("C10:reset-tuple", f"reset returned {type(out)}")
        check_obs(env, scn, out[0], modes, "reset")
        neg = any(hh["value"] < 0 for hh in spec.hosts.values())
        custom = tuple(spec.bounds) != (len(spec.subnets), max(spec.subnets))
        if record and (neg or custom):
            rep.count("negative-value-or-custom-bounds")
        from .check_c12 import vector_of
        env.action_space.seed(int(case["ops"][0][-1]) if case["ops"] and len(case["ops"][0]) > 1 else 0)
        for n, op in enumerate(case["ops"]):
            nops = n + 1
            if op[0] == "x":
                # Gymnasium's keyword-only reset arguments must be accepted
                # (seed: any non-negative Python int - Gymnasium's documented domain, e.g. time.time_ns())
                rseed = RESET_SEEDS[(5 * n + len(case["ops"])) % len(RESET_SEEDS)]
                out = env.reset(seed=rseed) if n % 2 == 0 else (env.reset(options={}) if n % 4 == 1 else env.reset())
                if record and n % 2 == 0:
                    rep.count("reset(seed>=2**32)" if rseed >= 2**32 else "reset(seed<2**32)")
                if not isinstance(out, tuple) or len(out) != 2 or not isinstance(out[1], dict):
                    raise Failure("C10:reset-tuple", f"reset returned {type(out)}")
                check_obs(env, scn, out[0], modes, "reset")
                h.mst = spec.initial()
                continue
            if op[0] == "v":
                # read-only public methods (rendering to a captured stdout, mask, bounds ...) between the steps:
                # everything afterwards must still honour the contract
                walk.do_query(h, op[1])
                if record:
                    rep.count("queries")
                continue
            if op[0] == "c":
                walk.run_history(h, [tuple(op)], lambda *a: None)
                env = h.env                      # the history goes on with the copy
                if record:
                    rep.count("continued-on-a-copy")
                continue
            if op[0] in ("g", "o", "b"):
                continue
            if op[0] == "f" or op[0] == "r":
                # what the space's own sampler returns
                a = env.action_space.sample()
                if not env.action_space.contains(a):
                    raise Failure("C10:sample-not-in-space", f"sample() returned {a!r} not contained in the space")
                np.random.seed(op[-1])
                try:
                    out = env.step(a)
                except Exception as e:
                    raise Failure("C10:sample-rejected", f"step(action_space.sample()) = step({a!r} of type {type(a).__name__}) raised {type(e).__name__}: {e}",
                                  bucket=f"C10:sample-rejected:{'flat' if modes['flat_actions'] else 'param'}")
                rep.nontriv(h.fp, sorted(modes.items()), np.asarray(a).tolist(), n)
                if record:
                    rep.count("sampled-steps")
                check_step_tuple(out, f"step(sample {a!r})")
                check_obs(env, scn, out[0], modes, f"step(sample {a!r})")
                h.mst = h.dyn(env.current_state.tensor)
                continue
            act = h.choose(op)
            i = h.real_index[act.key()]
            a, form = spellings(env, modes, i, op[1], lambda j: vector_of(spec, h.acts[j]) if j < len(h.acts) else None)
            if not isinstance(a, (int, list, tuple)) and not hasattr(a, "target") and not env.action_space.contains(a):
                a, form = spellings(env, modes, i, 0, lambda j: vector_of(spec, h.acts[j]))   # not a member in this spelling
            side, seed, draw = h.pick_seed(act, op[-2], op[-1])
            np.random.seed(seed)
            try:
                out = env.step(a)
            except Exception as e:
                raise Failure("C10:member-rejected", f"step({a!r} of type {type(a).__name__}) raised {type(e).__name__}: {e}",
                              bucket=f"C10:member-rejected:{type(a).__name__}")
            if record:
                rep.count(f"spelling:{type(a).__name__}")
            check_step_tuple(out, f"step({act})")
            check_obs(env, scn, out[0], modes, f"step({act})")
            h.mst = h.dyn(env.current_state.tensor)
        gym_checker(scn, modes, rep, record)
        if record and len(rep.samples) < rep.max_samples:
            rep.sample(dict(source=case["source"]["kind"], modes=modes, n_ops=len(case["ops"]),
                            obs_space=dict(shape=list(env.observation_space.shape),
                                           low=float(np.min(env.observation_space.low)), high=float(np.max(env.observation_space.high))),
                            action_space=repr(env.action_space)[:80]))
    except walk.SourceRejected as e:
        if record:
            rep.count(f"source-rejected({e.owner})")
    except Failure as f:
        fail(f, nops)
    except Exception as e:
        inside, where = engine.from_nasim(sys.exc_info()[2])
        if not inside:
            raise
        fail(Failure("C10:exception", f"{type(e).__name__}: {e} at {where}",
                     bucket=f"C10:exception:{type(e).__name__}@{where}"), nops)
    return failed


def exhaustive_members(name, rep):
    """every index of the flat space / every vector of the parameterised space
    of a small shipped scenario is accepted by step()."""
    spec, scn, _ = sources.shipped_case(name)
    n = 0
    for modes in MODE_LIST:
        case0 = dict(source={"kind": "shipped", "name": name}, modes=modes, ops=[])
        try:
            env = sources.make_env(scn, **modes)
            env.reset()
            if modes["flat_actions"]:
                members = [np.int64(i) for i in range(env.action_space.n)] + list(range(env.action_space.n))
            else:
                members = [np.array(v) for v in itertools.product(*[range(int(k)) for k in env.action_space.nvec])]
                if len(members) > 4000:
                    members = members[::max(1, len(members) // 4000)]
            for a in members:
                np.random.seed(1)
                try:
                    out = env.step(a)
                except Exception as e:
                    raise Failure("C10:member-rejected", f"{name}: step({a!r}) raised {type(e).__name__}: {e}",
                                  bucket=f"C10:member-rejected:{type(a).__name__}")
                check_step_tuple(out, f"{name} step({a!r})")
                check_obs(env, scn, out[0], modes, f"{name} step({a!r})")
                n += 1
        except Failure as f:
            rep.fail(f.bucket, f.detail, case0)
    rep.count("exhaustive-member-steps", n)
    rep.evaluated()


def expect_modes(env, modes, where):
    """the environment behaves according to the requested modes"""
    from gymnasium import spaces
    base = getattr(env, "unwrapped", env)
    out = env.reset()
    if not isinstance(out, tuple) or len(out) != 2:
        raise Failure("C10:reset-tuple", f"{where}: reset returned {type(out)}")
    obs = np.asarray(out[0])
    if (obs.ndim == 1) is not bool(modes["flat_obs"]):
        raise Failure("C10:entry-flat-obs", f"{where}: observation has {obs.ndim} dimensions, flat_obs={modes['flat_obs']}")
    flat = isinstance(env.action_space, spaces.Discrete)
    if flat is not bool(modes["flat_actions"]) or (not flat and not isinstance(env.action_space, spaces.MultiDiscrete)):
        raise Failure("C10:entry-flat-actions", f"{where}: action space {type(env.action_space).__name__}, flat_actions={modes['flat_actions']}")
    t = base.current_state.tensor
    o2 = obs.reshape(t.shape[0] + 1, t.shape[1])
    full = bool(np.array_equal(o2[:-1], t))
    if full is not bool(modes["fully_obs"]):
        raise Failure("C10:entry-fully-obs", f"{where}: initial observation {'equals' if full else 'differs from'} the state, fully_obs={modes['fully_obs']}")
    check_obs(base, base.scenario, np.asarray(out[0]), modes, where + " reset")
    env.action_space.seed(3)
    for k in range(8):
        a = env.action_space.sample()
        np.random.seed(k)
        res = env.step(a)
        check_step_tuple(res, f"{where} step {k}")
        check_obs(base, base.scenario, np.asarray(res[0]), modes, f"{where} step {k}")


RESET_SEEDS = [0, 1, 7, 2**31 - 1, 2**31, 2**32 - 1, 2**32, 2**32 + 12345, 2**53 + 1, 2**63 - 1, 2**63, 2**64 + 3,
               1759561200123456789, 2**100 + 9]


def entry_points(rep, tier):
    """every documented way of constructing an environment honours the requested modes:
    nasim.make_benchmark / nasim.load / nasim.generate keyword arguments and the registered
    Gymnasium ids ScenarioName[PO][2D][VA]-v0"""
    import warnings
    import gymnasium as gym
    import nasim
    names = [("tiny", "Tiny"), ("tiny-small", "TinySmall"), ("small-gen", "SmallGen")]
    if tier == "thorough":
        names += [("small", "Small"), ("medium-single-site", "MediumSingleSite"), ("tiny-gen-rgoal", "TinyGenRgoal")]
    n = 0
    for modes in MODE_LIST:
        case0 = dict(entry_point=True, modes=modes)
        try:
            for bench, camel in names:
                expect_modes(nasim.make_benchmark(bench, 1, **modes), modes, f"make_benchmark('{bench}', **{modes})")
                gid = camel + ("" if modes["fully_obs"] else "PO") + ("" if modes["flat_obs"] else "2D") + ("" if modes["flat_actions"] else "VA") + "-v0"
                with warnings.catch_warnings():
                    warnings.simplefilter("ignore")
                    try:
                        genv = gym.make(gid)
                    except Exception as e:
                        raise Failure("C10:gym-make", f"gymnasium.make('{gid}') raised {type(e).__name__}: {e}")
                    expect_modes(genv, modes, f"gymnasium.make('{gid}')")
                n += 2
            expect_modes(nasim.load(sources.shipped_path("tiny-hard"), **modes), modes, f"nasim.load(tiny-hard, **{modes})")
            expect_modes(nasim.generate(6, 2, seed=4, host_discovery_value=2, **modes), modes, f"nasim.generate(6, 2, **{modes})")
            n += 2
        except Failure as f:
            rep.fail(f.bucket, f.detail, case0)
        except Exception as e:
            inside, where = engine.from_nasim(sys.exc_info()[2])
            if not inside:
                raise
            rep.fail(f"C10:exception:{type(e).__name__}@{where}", f"{type(e).__name__}: {e} at {where} (entry points, modes {modes})", case0)
    rep.count("entry-point-environments", n)
    rep.evaluated()


class _Runner:
    def __init__(self, rep):
        self.rep = rep

    def run(self, case, record=True):
        return run_case(case, self.rep, record)


def _shard(shard, seed, tier, n_cases):
    rep = Reporter(PID, tier, RULE)
    strat = engine.case_strategy(tier, dict(extras=True), weights=(10, 4, 6), min_ops=8, max_ops=40,
                                 modes=engine.MODES, resets=True, gens=False, queries=True)
    engine.drive(_Runner(rep), strat, n_cases, seed)
    return rep


def main(tier, replay=None):
    rep = Reporter(PID, tier, RULE, assumptions=[
        "members of the space are given in the spellings Gymnasium itself produces or documents: sampler output, Python int, NumPy integer scalars, list / tuple / ndarray vectors, Action objects",
        "terminated / truncated may be Python or NumPy booleans, reward any real scalar"])
    if replay:
        j, case = engine.load_replay(replay)
        failed = run_case(engine.case_from_json(case), rep)
        print(f"replay {replay}: failing buckets {sorted(failed)}")
        if failed:
            print(f"VIOLATION property={PID} replay={replay}")
            return 1
        return 0
    for name in (["tiny", "tiny-hard", "tiny-small"] + (["small", "small-honeypot"] if tier == "thorough" else [])):
        exhaustive_members(name, rep)
    entry_points(rep, tier)
    for name in sources.shipped_names():
        for modes in MODE_LIST:
            run_case(dict(source={"kind": "shipped", "name": name}, modes=modes,
                          ops=[("f", i, "lo", i) for i in range(10)] + [("p", i, "lo", i) for i in range(6)]), rep)
    nshards = 16 if tier == "thorough" else 8
    total = 16 * 2000 if tier == "thorough" else 480
    for p in engine.run_shards(_shard, nshards, common.verif_seed(), tier=tier, n_cases=total // nshards):
        rep.merge(p)
    runner = _Runner(Reporter(PID, tier, RULE))
    for bucket in list(rep.buckets):
        engine.minimise_bucket(runner, rep, bucket, budget=60)
    docs.cleanup()
    return rep.finish()
