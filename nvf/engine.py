"""Generation, driving, sharding, minimisation and replay of walker cases."""
import json
import multiprocessing as mp
import os
import sys
import tempfile
import traceback

import hypothesis
from hypothesis import HealthCheck, Phase, given, settings, strategies as st

from . import common, docs, draws, model as M, sources, walk
from .common import Failure, Reporter

# ------------------------------------------------------------------ strategies
SIDE = st.sampled_from(["lo", "lo", "lo", "hi"])
KS = st.integers(0, 1 << 16)
BIG = st.integers(0, 1 << 20)


def weighted(pairs):
    """one_of with explicit weights (Hypothesis de-duplicates repeated alternatives)"""
    total = sum(w for w, _ in pairs)

    @st.composite
    def pick(draw):
        x = draw(st.integers(0, total - 1))
        for w, s in pairs:
            if x < w:
                return draw(s)
            x -= w
    return pick()


def op_strategy(resets=True, gens=True, burn=False, custom=False, queries=False, reset_weight=1):
    prog = st.tuples(st.just("p"), BIG, SIDE, KS)
    near = st.tuples(st.just("n"), st.integers(0, 8), BIG, SIDE, KS)
    flat = st.tuples(st.just("f"), BIG, SIDE, KS)
    rep = st.tuples(st.just("r"), SIDE, KS)
    noop = st.just(("o",))
    deep = st.tuples(st.just("d"), BIG, SIDE, KS)
    redundant = st.tuples(st.just("i"), BIG, SIDE, KS)
    alts = [(11, prog), (11, deep), (8, near), (4, redundant), (3, flat), (3, rep), (1, noop)]
    if queries:
        alts.append((3, st.tuples(st.just("v"), st.integers(0, 59))))
        alts.append((4, st.tuples(st.just("s"), st.integers(0, 23), BIG, SIDE, KS)))
        alts.append((1, st.tuples(st.just("c"), st.integers(0, 9))))
    if custom:
        alts.append((4, st.tuples(st.just("q"), st.integers(0, 2), BIG, st.integers(0, 139), SIDE, KS)))
    if burn:
        alts.append((1, st.tuples(st.just("b"), BIG)))
    if resets:
        alts.append((reset_weight, st.just(("x",))))
    if gens:
        alts.append((5, st.tuples(st.just("g"), st.integers(0, 23), BIG, SIDE, KS)))
    return weighted(alts)


def source_strategy(tier, doc_kw=None, weights=(14, 3, 3), gen_max_hosts=None):
    doc_kw = dict(doc_kw or {})
    d = st.builds(lambda doc, flow: {"kind": "doc", "doc": doc, "flow": flow},
                  docs.documents(**doc_kw), st.sampled_from([None, None, False, True]))
    names = sources.shipped_names()
    small = [n for n in names if n.startswith("tiny") or n.startswith("small")]
    pool = small * 3 + names if tier == "thorough" else small * 4 + names
    s = st.builds(lambda n: {"kind": "shipped", "name": n}, st.sampled_from(pool))
    mh = gen_max_hosts or (40 if tier == "thorough" else 20)
    g = st.builds(lambda p, r: ({"kind": "gen", "params": p, "reuse": True} if r == 0 else {"kind": "gen", "params": p}),
                  sources.gen_params(max_hosts=mh, max_services=5), st.integers(0, 5))
    big = st.builds(lambda p: {"kind": "gen", "params": p}, sources.gen_params_large())
    rich = st.builds(lambda p: {"kind": "gen", "params": p}, sources.gen_params_many_features())
    extra = max(1, sum(weights) // 5)
    return weighted([(weights[0] * 4, d), (weights[1] * 4, s), (weights[2] * 4, g), (extra, big), (extra, rich)])


MODES = st.fixed_dictionaries({
    "fully_obs": st.booleans(), "flat_actions": st.booleans(), "flat_obs": st.booleans()})


def case_strategy(tier, doc_kw=None, weights=(14, 3, 3), min_ops=12, max_ops=None,
                  modes=None, resets=True, gens=True, burn=False, custom=False, queries=False, reset_weight=1):
    max_ops = max_ops or (150 if tier == "thorough" else 60)
    return st.fixed_dictionaries({
        "source": source_strategy(tier, doc_kw, weights),
        "ops": st.lists(op_strategy(resets, gens, burn, custom, queries, reset_weight), min_size=min_ops, max_size=max_ops),
        "modes": modes if modes is not None else st.just({}),
        "foreign": st.sampled_from([None, None, None, "small", "tiny-small", "medium", "sibling", "sibling"]),
    })


# ------------------------------------------------------------------ running
def from_nasim(tb):
    """True iff the exception was raised while code under test was executing:
    below the last harness frame (nvf/) there is a frame of <repo>/nasim (the
    innermost frame itself may be NumPy / Gymnasium called from there)."""
    repo = os.path.join(common.REPO, "nasim") + os.sep
    mine = os.path.join(common.VERIF, "nvf") + os.sep
    last_nasim = None
    seen_nasim_after_harness = False
    while tb is not None:
        fn = os.path.abspath(tb.tb_frame.f_code.co_filename)
        if fn.startswith(mine):
            seen_nasim_after_harness = False
        elif fn.startswith(repo):
            seen_nasim_after_harness = True
            last_nasim = tb
        tb = tb.tb_next
    if seen_nasim_after_harness and last_nasim is not None:
        code = last_nasim.tb_frame.f_code
        return True, f"{os.path.basename(code.co_filename)}:{code.co_name}"
    return False, "?"


class CaseRunner:
    """Runs one walker case under a dynamic check definition (see checks_dyn)."""

    def __init__(self, chk, rep):
        self.chk = chk
        self.rep = rep

    def run(self, case, record=True):
        """returns set of failing buckets for this case"""
        rep, chk = self.rep, self.chk
        failed = set()
        nops = [0]

        def fail(f, upto=None):
            failed.add(f.bucket)
            if record:
                c = dict(case)
                if upto is not None:
                    c["ops"] = list(case["ops"][:upto])
                rep.fail(f.bucket, f.detail, c)

        try:
            h = walk.build_harness(case["source"], case.get("modes"), foreign=case.get("foreign"))
        except walk.SourceRejected as e:
            if record:
                rep.count(f"source-rejected({e.owner})")
            return failed
        except Failure as f:
            fail(f, 0)
            return failed
        except Exception as e:
            inside, where = from_nasim(sys.exc_info()[2])
            if not inside:
                raise
            fail(Failure(f"{chk.pid}:exception-at-construction", f"{type(e).__name__}: {e} at {where}",
                         bucket=f"{chk.pid}:exception:{type(e).__name__}@{where}"), 0)
            return failed
        if record:
            rep.evaluated()
            rep.count("source:" + case["source"]["kind"])
        try:
            if chk.on_start:
                chk.on_start(h, rep)

            transcript = []

            def on_rec(hh, rec, twin):
                if record:
                    rep.count("executions")
                    if rec.mode == "step" and len(transcript) < 14:
                        transcript.append(f"{rec.act} draw={'<' if rec.side == 'lo' else '>'}p({rec.act.prob}) -> "
                                          f"{'success' if rec.info['success'] else 'fail'} gates={sorted(rec.pred.gates)}")
                chk.on_rec(hh, rec, twin, rep)

            def on_reset(hh, obs, info):
                if record:
                    rep.count("resets")
                if chk.on_reset:
                    chk.on_reset(hh, obs, info, rep)

            def sweep():
                byc = h.classify(h.mst)
                todo = []
                big = len(h.acts) > 60          # many exploit definitions: many ways to be stopped by one rule
                for cl in ("subnetfw", "hostfw", "pivot", "passblocked", "access"):
                    todo += byc.get(cl, [])[:(120 if big and cl in ("subnetfw", "hostfw") else 14)]
                todo = todo[:(260 if big else 48)]
                # ... and the host-level near-misses (wrong OS, missing service / process), escalations first
                for cl in ("os", "process", "service"):
                    members = sorted(byc.get(cl, []), key=lambda i: h.acts[i].kind != "privesc")
                    todo += members[:10]
                for i in todo:
                    rec = h.exec_gen(h.env.current_state, h.mst, h.acts[i], "lo", i, opname="sweep")
                    on_rec(h, rec, None)
                if record:
                    rep.count("near-miss-sweep-executions", len(todo))

            ops = case["ops"]
            sweep()                         # also in the initial state
            for i, op in enumerate(ops):
                nops[0] = i + 1
                res = walk.run_history(h, [tuple(op)], on_rec, on_reset,
                                       both_sides=chk.both_sides, do_gen=chk.do_gen)
                if res == "diverged" and getattr(h, "query_changed", None):
                    if chk.pid in ("C04", "C13"):
                        raise Failure(f"{chk.pid}:query-changed-environment", f"read-only call {h.query_changed} "
                                      f"(after {i} operations)", bucket=f"{chk.pid}:query-changed-environment")
                    if record:
                        rep.count("query-changed-environment(C04/C13)")
                    break
                if res == "diverged":
                    if record:
                        rep.count("diverged-not-owned")
                    if not getattr(chk, "continue_on_divergence", False):
                        break
                    h.diverged = None       # the oracles of this check follow the REAL transitions; the model only picks ops
            # near-miss sweep: every action stopped by exactly one network-level gate (and those that pass while some
            # attacker position is blocked), generatively - in the final state of the history
            nops[0] = len(ops)
            if not h.diverged:
                sweep()
            if chk.on_end:
                chk.on_end(h, rep)
            if record:
                rep.count("queries", getattr(h, "queries", 0))
                rep.count("cross-state-probes", getattr(h, "cross_probes", 0))
                rep.count("continued-on-a-copy", getattr(h, "copies", 0))
                if getattr(h, "copy_failed", 0):
                    rep.count("copy-not-supported", h.copy_failed)
                rep.count("stale-probes-after-reset", getattr(h, "stale_probes", 0))
                if getattr(h, "query_errors", 0):
                    rep.count("query-raised(not owned)", h.query_errors)
                ncomp = h.max_depth
                rep.count(f"depth:{min(ncomp, 5)}{'+' if ncomp >= 5 else ''}")
                if h.spec.goal(h.mst):
                    rep.count("goal-reached-at-end")
                if len(rep.samples) < rep.max_samples and rep.evaluations % 7 == 3:
                    d = describe_case(case, h)
                    d["transcript_first_steps"] = transcript
                    rep.sample(d)
        except Failure as f:
            fail(f, nops[0])
        except Exception as e:
            inside, where = from_nasim(sys.exc_info()[2])
            if not inside:
                raise
            fail(Failure(f"{chk.pid}:exception", f"{type(e).__name__}: {e} at {where}",
                         bucket=f"{chk.pid}:exception:{type(e).__name__}@{where}"), nops[0])
        return failed


def describe_case(case, h):
    src = case["source"]
    if src["kind"] == "doc":
        d = src["doc"]
        s = dict(kind="doc", subnets=d["subnets"], topology=d["topology"],
                 sensitive=list(d["sensitive_hosts"]), exploits=d["exploits"],
                 firewall=d["firewall"],
                 host_firewalls={a: c["firewall"] for a, c in d["host_configurations"].items() if "firewall" in c})
    else:
        s = src
    return dict(source=s, modes=case.get("modes"), foreign_environment=case.get("foreign"), ops=[list(o) for o in case["ops"][:12]],
                n_ops=len(case["ops"]),
                final_compromised=[a for a, v in h.mst.items() if v[0]])


def minimise(runner, case, bucket, budget=150):
    """greedy op deletion keeping the same failing bucket"""
    ops = list(case["ops"])
    tries = 0
    i = len(ops) - 1
    while i >= 0 and tries < budget:
        cand = ops[:i] + ops[i + 1:]
        c = dict(case, ops=cand)
        tries += 1
        try:
            if bucket in runner.run(c, record=False):
                ops = cand
        except Exception:
            pass
        i -= 1
    case = dict(case, ops=ops)
    try:
        case = minimise_doc(runner, case, bucket)
        # ops may shrink further on the smaller document
        ops = list(case["ops"])
        i = len(ops) - 1
        while i >= 0 and tries < budget + 60:
            cand = ops[:i] + ops[i + 1:]
            tries += 1
            if bucket in runner.run(dict(case, ops=cand), record=False):
                ops = cand
            i -= 1
        case = dict(case, ops=ops)
    except Exception:
        pass
    return case


def minimise_bucket(runner, rep, bucket, budget=150):
    """minimise the stored case of a bucket and refresh its detail text from a
    run of the minimal case (runner.rep must be a throw-away Reporter)"""
    b = rep.buckets[bucket]
    if not (b["case"] and b["case"].get("ops")):
        return
    try:
        case = minimise(runner, b["case"], bucket, budget)
        runner.rep.buckets.clear()
        runner.run(case, record=True)
        got = runner.rep.buckets.get(bucket)
        if got:
            b["case"] = got["case"] or case
            b["detail"] = f"{got['detail']}  [minimised from: {str(b['detail'])[:200]}]"
    except Exception:
        pass


def _doc_candidates(doc):
    """structural simplifications of a document, most aggressive first"""
    import copy

    def c():
        return copy.deepcopy(doc)
    n = len(doc["subnets"])
    # remove the last subnet (if another sensitive host remains)
    if n > 1:
        d = c()
        last = n
        keep_sens = {a: v for a, v in d["sensitive_hosts"].items() if a[0] != last}
        if keep_sens and any(d["topology"][0][s] for s in range(1, n)):
            d["sensitive_hosts"] = keep_sens
            d["subnets"] = d["subnets"][:-1]
            d["topology"] = [r[:-1] for r in d["topology"][:-1]]
            d["firewall"] = {k: v for k, v in d["firewall"].items() if last not in k}
            d["host_configurations"] = {a: cfg for a, cfg in d["host_configurations"].items() if a[0] != last}
            for cfg in d["host_configurations"].values():
                if "firewall" in cfg:
                    cfg["firewall"] = {a: v for a, v in cfg["firewall"].items() if a[0] != last}
            for k in ("_discovery_values",):
                if k in d:
                    d[k] = {a: v for a, v in d[k].items() if a[0] != last}
            d.pop("_bounds", None)
            yield d
    for k in ("_discovery_values", "_bounds", "step_limit"):
        if k in doc:
            d = c(); del d[k]; yield d
    for name in list(doc["privilege_escalation"]):
        d = c(); del d["privilege_escalation"][name]; yield d
    if len(doc["exploits"]) > 1:
        for name in list(doc["exploits"]):
            d = c(); del d["exploits"][name]; yield d
    for a, cfg in doc["host_configurations"].items():
        if "firewall" in cfg:
            d = c(); del d["host_configurations"][a]["firewall"]; yield d
        if "value" in cfg and a not in doc["sensitive_hosts"]:
            d = c(); del d["host_configurations"][a]["value"]; yield d
        if len(cfg["services"]) > 1:
            d = c(); d["host_configurations"][a]["services"] = cfg["services"][:1]; yield d
        if cfg["processes"]:
            d = c(); d["host_configurations"][a]["processes"] = []; yield d
    if len(doc["sensitive_hosts"]) > 1:
        for a in list(doc["sensitive_hosts"]):
            d = c(); del d["sensitive_hosts"][a]; yield d
    for k, rule in doc["firewall"].items():
        if set(rule) != set(doc["services"]):
            d = c(); d["firewall"][k] = list(doc["services"]); yield d


def minimise_doc(runner, case, bucket, budget=120):
    """greedy structural reduction of the document of a failing case (same bucket must keep failing)"""
    if case.get("source", {}).get("kind") != "doc":
        return case
    tries = 0
    improved = True
    while improved and tries < budget:
        improved = False
        for cand in _doc_candidates(case["source"]["doc"]):
            tries += 1
            c2 = dict(case, source=dict(case["source"], doc=cand))
            try:
                if bucket in runner.run(c2, record=False):
                    case = c2
                    improved = True
                    break
            except Exception:
                pass
            if tries >= budget:
                break
    return case


def drive(runner, strategy, n_cases, seed):
    """Hypothesis generation phase only; failures are collected by the runner
    (bucketed) so the search continues behind the first one."""
    @hypothesis.seed(seed)
    @settings(max_examples=n_cases, deadline=None, database=None,
              derandomize=False, phases=[Phase.generate],
              suppress_health_check=list(HealthCheck), report_multiple_bugs=False)
    @given(case=strategy)
    def t(case):
        runner.run(case)
    t()


# ------------------------------------------------------------------ sharding
def _shard_main(args):
    fn, shard, seed, kw = args
    os.environ["HYPOTHESIS_STORAGE_DIRECTORY"] = tempfile.mkdtemp(prefix="nvf_hyp_", dir=os.environ.get("NVF_TMP") or None)
    try:
        rep = fn(shard=shard, seed=seed, **kw)
        return ("ok", rep.partial())
    except BaseException:
        return ("err", traceback.format_exc())
    finally:
        docs.cleanup()
        import shutil
        shutil.rmtree(os.environ["HYPOTHESIS_STORAGE_DIRECTORY"], ignore_errors=True)


def run_shards(fn, nshards, base_seed, **kw):
    """fn(shard, seed, **kw) -> Reporter; returns list of partial dicts."""
    jobs = [(fn, i, common.mix_seed(base_seed, "shard", i), kw) for i in range(nshards)]
    if nshards == 1:
        res = [_shard_main(jobs[0])]
    else:
        ctx = mp.get_context("fork")
        with ctx.Pool(min(nshards, os.cpu_count() or 1)) as pool:
            res = pool.map(_shard_main, jobs, chunksize=1)
    errs = [r[1] for r in res if r[0] == "err"]
    if errs:
        raise RuntimeError("shard failed:\n" + errs[0])
    return [r[1] for r in res]


def load_replay(path):
    with open(path) as f:
        j = json.load(f)
    case = j["case"]
    return j, case


def case_from_json(case):
    c = dict(case)
    src = dict(case["source"])
    if src["kind"] == "doc":
        src["doc"] = docs.doc_from_json(src["doc"])
    elif src["kind"] == "gen":
        p = dict(src["params"])
        if "address_space_bounds" in p and p["address_space_bounds"] is not None:
            p["address_space_bounds"] = tuple(p["address_space_bounds"])
        src["params"] = p
    c["source"] = src
    c["ops"] = [tuple(o) for o in case["ops"]]
    return c
