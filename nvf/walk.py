"""History walker: executes shrinkable operation lists on a real NASim
environment in lock-step with the reference model and hands every execution
(a `Rec`) to the oracles of the running check.

case = dict(source=<source>, ops=[op, ...], modes={...})
source: {"kind": "doc", "doc": <document>} | {"kind": "shipped", "name": n}
        | {"kind": "gen", "params": {...}}
ops   : ("p", k, side, ks)        k-th action the model predicts to change the state
        ("n", c, k, side, ks)     adaptive near-miss: c-th available gate class, k-th action in it
        ("f", i, side, ks)        flat index i mod n
        ("d", k, side, ks)        depth-first progress: act at / push outwards from the most recently compromised host
        ("i", k, side, ks)        redundant-but-applicable exploit / escalation (all gates pass, model predicts no change)
        ("r", side, ks)           repeat the previous action
        ("o",)                    no-op (NoOp action object)
        ("q", sub, i, var, side, ks)  hand-built Action object (public constructors): progress / near-miss / flat
                                  action with required access ROOT|USER and possibly another prob / cost
        ("b", k)                  burn: repeat a cheap action until k%9+1 steps before the step limit
        ("x",)                    reset
        ("s", j, k, side, ks)     cross-state probe: an action that passes every gate in exactly ONE of the current state and
                                  the j-th saved state (states saved before a reset included) - executed generatively on the
                                  saved state first, then (generatively and as a step) in the current state: an answer must
                                  not leak from one state to the other through anything the environment remembers
        ("c", k)                  continue on a copy of the environment (deepcopy / pickle round trip)
        ("v", k)                  query: one of the environment's read-only public methods (render_state / render_obs /
                                  render / render_action to a captured stdout, get_action_mask, get_minimum_hops,
                                  get_score_upper_bound, goal_reached, generate_initial_state,
                                  generate_random_initial_state, str(env), space.sample()) - must change nothing
        ("g", j, k, side, ks)     generative_step on the j-th saved earlier state (k-th progress action there)
side 'lo'/'hi' = draw below/above the action's probability, ks varies the seed.
"""
import numpy as np

from . import draws, model as M, sources
from .common import Failure
from .decode import Layout

KIND_OF_CLASS = {
    "ServiceScan": "service_scan", "OSScan": "os_scan", "SubnetScan": "subnet_scan",
    "ProcessScan": "process_scan", "Exploit": "exploit",
    "PrivilegeEscalation": "privesc", "NoOp": "noop",
}

NEAR_ORDER = ["hostfw", "passblocked", "subnetfw", "pivot", "access", "discovery",
              "os", "service", "process"]


def kind_of(a):
    """kind of a real Action through its documented predicate methods (class
    names are an implementation detail)"""
    for pred, kind in (("is_exploit", "exploit"), ("is_privilege_escalation", "privesc"),
                       ("is_service_scan", "service_scan"), ("is_os_scan", "os_scan"),
                       ("is_subnet_scan", "subnet_scan"), ("is_process_scan", "process_scan"),
                       ("is_noop", "noop")):
        f = getattr(a, pred, None)
        if f is not None and f():
            return kind
    return KIND_OF_CLASS.get(type(a).__name__)


def real_key(a):
    kind = kind_of(a)
    name = str(a.name) if kind in ("exploit", "privesc") else None
    return (kind, tuple(int(i) for i in a.target), name)


class Rec:
    """One execution of one action."""
    __slots__ = ("mode", "act", "side", "seed", "draw", "pre_model", "pred",
                 "pre_t", "post_t", "obs", "reward", "done", "trunc", "info",
                 "ndraws", "steps_before", "steps_after", "pre", "post",
                 "purity", "ret", "state_arg_is_current", "opname")


class Harness:
    def __init__(self, spec, scn, modes=None, tag=None, env=None):
        self.spec = spec
        self.scn = scn
        self.modes = dict(modes or {})
        self.env = env if env is not None else sources.make_env(scn, **self.modes)
        self.tag = tag
        self.layout = Layout(spec)
        t0 = self.env.current_state.tensor
        if t0.shape != (len(spec.addrs), self.layout.width):
            raise Failure("setup:shape", f"state tensor shape {t0.shape} != "
                          f"{(len(spec.addrs), self.layout.width)} (documented layout)")
        try:
            self.rowmap = self.layout.row_map(t0)
        except ValueError as e:
            raise Failure("setup:rows", str(e))
        if set(self.rowmap) != set(spec.addrs):
            raise Failure("setup:rows", f"rows {sorted(self.rowmap)} != hosts {sorted(spec.addrs)}")
        self.acts = M.flat_actions(spec)
        self.flat = bool(self.modes.get("flat_actions", True))
        self.real_actions = list(self.env.action_space.actions)
        first_e, first_p = {}, {}
        for n_, d_ in spec.exploits.items():
            first_e.setdefault((d_["service"], d_["os"]), n_)
        for n_, d_ in spec.privescs.items():
            first_p.setdefault((d_["process"], d_["os"]), n_)
        # (kind, name): an exploit and an escalation may carry the same name
        self.expressible = {("exploit", n_) for n_ in first_e.values()} | {("privesc", n_) for n_ in first_p.values()}
        self.real_index = {}
        for i, a in enumerate(self.real_actions):
            self.real_index.setdefault(real_key(a), i)
        missing = [a for a in self.acts if a.key() not in self.real_index]
        if missing:
            raise Failure("setup:actions", f"actions of the scenario missing from the action space: {missing[:3]}")
        self.mst = spec.initial()
        self.initial_tensor = np.array(t0, copy=True)
        self.initial_obs = np.array(self.env.last_obs.tensor, copy=True)
        self.static0 = self.layout.static_part(self.initial_tensor).tobytes()
        self.ledger = set()
        self.saved = [(self.env.current_state.copy(), dict(self.mst))]    # the initial state is always available to "g" ops
        self.shadow_steps = 0
        self.last_act = None
        self.fp = spec.fingerprint()
        self.diverged = None
        self.max_depth = 0
        self.last_comp = None
        self.probes = {}
        self.cross = None

    # ------------------------------------------------------------ helpers
    def obs2d(self, o):
        o = np.asarray(o)
        return o.reshape(len(self.spec.addrs) + 1, self.layout.width)

    def real_action(self, act):
        """What is passed to step(): a flat index, or (parameterised space /
        no-op) the Action object."""
        if act.kind == "noop":
            from nasim.envs.action import NoOp
            return NoOp()
        if act.custom:
            return self.hand_built(act)
        i = self.real_index[act.key()]
        if self.flat:
            return int(i)
        # parameterised space: the documented parameter vector where the action is expressible
        # (first definition per (service, OS) / (process, OS)), else the Action object
        if act.kind not in ("exploit", "privesc") or (act.kind, act.name) in self.expressible:
            from .check_c12 import vector_of
            v = vector_of(self.spec, act)
            # the spellings a MultiDiscrete member comes in: list, int64 array, and the narrow integer types
            # (every entry of a member fits them whenever the space's own nvec does)
            self.n_vec = getattr(self, "n_vec", 0) + 1
            k = (self.n_vec + i) % 5
            if k == 1:
                return np.array(v)
            if k == 2 and max(v) < 128:
                return np.array(v, dtype=np.int8)
            if k == 3 and max(v) < 256:
                return np.array(v, dtype=np.uint8)
            if k == 4:
                return tuple(v)
            if k == 0 and self.n_vec % 2:
                ro = np.array(v)
                ro.setflags(write=False)        # a member of the space whatever its flags (np.frombuffer, broadcast_to ...)
                return ro
            return v
        return self.real_actions[i]

    def hand_built(self, act):
        """Action object made with the documented public constructors (step / generative_step
        accept Action objects) - not a member of the environment's own action list"""
        from nasim.envs import action as A
        from nasim.envs.utils import AccessLevel
        req = AccessLevel(int(act.req))
        t = tuple(act.target)
        if act.kind == "exploit":
            return A.Exploit(name=act.name, target=t, cost=act.cost, service=act.service, os=act.os,
                             access=AccessLevel(int(act.grant)), prob=act.prob, req_access=req)
        if act.kind == "privesc":
            return A.PrivilegeEscalation(name=act.name, target=t, cost=act.cost, access=AccessLevel(int(act.grant)),
                                         process=act.process, os=act.os, prob=act.prob, req_access=req)
        cls = {"service_scan": A.ServiceScan, "os_scan": A.OSScan, "subnet_scan": A.SubnetScan, "process_scan": A.ProcessScan}[act.kind]
        return cls(target=t, cost=act.cost, prob=act.prob, req_access=req)

    def dyn(self, tensor):
        return self.layout.dyn_state(tensor, self.rowmap)

    def pick_seed(self, act, side, ks):
        # prob 1 / prob 0: only one side exists; the requested side then asks
        # for an *adverse* draw (close to 1 resp. close to 0)
        if act.prob >= 1.0:
            s, d = draws.seed_for(0.99 if side == "hi" else 1.0, "hi" if side == "hi" else "lo", ks)
            return "lo", s, d
        if act.prob <= 0.0:
            s, d = draws.seed_for(0.01 if side == "lo" else 0.0, "lo" if side == "lo" else "hi", ks)
            return "hi", s, d
        r = draws.seed_for(act.prob, side, ks)
        if r is None:
            side = "hi" if side == "lo" else "lo"
            r = draws.seed_for(act.prob, side, ks)
        return side, r[0], r[1]

    # ------------------------------------------------------------ executions
    def exec_gen(self, state, mst, act, side, ks, opname="gen"):
        env = self.env
        side, seed, draw = self.pick_seed(act, side, ks)
        r = Rec()
        r.opname = opname
        r.mode, r.act, r.side, r.seed, r.draw = "gen", act, side, seed, draw
        r.pre_model = mst
        r.pred = M.step(self.spec, mst, act, side)
        r.pre_t = np.array(state.tensor, copy=True)
        cur_before = env.current_state.tensor.tobytes()
        obs_before = env.last_obs.tensor.tobytes()
        r.steps_before = env.steps
        r.state_arg_is_current = state is env.current_state
        np.random.seed(seed)
        ns, obs, rew, done, info = env.generative_step(state, self.real_action(act))
        r.ndraws = draws.draws_consumed(seed)
        r.steps_after = env.steps
        r.post_t = np.array(ns.tensor, copy=True)
        r.obs = np.array(self.obs2d(obs.tensor), copy=True)
        r.reward, r.done, r.trunc, r.info = rew, done, None, info
        r.ret = (ns, obs)
        r.purity = dict(
            arg_unchanged=state.tensor.tobytes() == r.pre_t.tobytes(),
            cur_unchanged=env.current_state.tensor.tobytes() == cur_before,
            obs_unchanged=env.last_obs.tensor.tobytes() == obs_before,
            steps_unchanged=r.steps_after == r.steps_before,
            shares=bool(np.shares_memory(ns.tensor, state.tensor)),
            same_obj=ns is state,
        )
        r.pre = self.dyn(r.pre_t)
        r.post = self.dyn(r.post_t)
        return r

    def exec_step(self, act, side, ks, opname="step"):
        env = self.env
        side, seed, draw = self.pick_seed(act, side, ks)
        r = Rec()
        r.opname = opname
        r.mode, r.act, r.side, r.seed, r.draw = "step", act, side, seed, draw
        r.pre_model = self.mst
        r.pred = M.step(self.spec, self.mst, act, side)
        r.pre_t = np.array(env.current_state.tensor, copy=True)
        r.steps_before = env.steps
        r.state_arg_is_current = True
        np.random.seed(seed)
        out = env.step(self.real_action(act))
        r.ndraws = draws.draws_consumed(seed)
        r.ret = out
        obs, rew, done, trunc, info = out
        r.steps_after = env.steps
        r.post_t = np.array(env.current_state.tensor, copy=True)
        r.obs = np.array(self.obs2d(obs), copy=True)
        r.reward, r.done, r.trunc, r.info = rew, done, trunc, info
        r.purity = None
        r.pre = self.dyn(r.pre_t)
        r.post = self.dyn(r.post_t)
        self.shadow_steps += 1
        return r

    def install(self, rec):
        """After a step(): advance the model with the REAL post state when it
        matches the prediction; otherwise mark the history as diverged."""
        if rec.post != rec.pred.state:
            self.diverged = f"{rec.act} side={rec.side}: real {diff(rec.pre_model, rec.post)} predicted {diff(rec.pre_model, rec.pred.state)}"
        self.mst = dict(rec.pred.state) if rec.post == rec.pred.state else dict(rec.post)
        if rec.post_t.tobytes() != rec.pre_t.tobytes() and len(self.saved) < 13:
            self.saved.append((self.env.current_state.copy(), dict(self.mst)))
        self.last_act = rec.act
        if rec.act.kind == "exploit" and rec.pre[rec.act.target][0] is not True \
           and rec.post[rec.act.target][0] is True:
            self.last_comp = rec.act.target
        self.max_depth = max(self.max_depth, sum(1 for v in self.mst.values() if v[0]))

    # ------------------------------------------------------------ probes (C13)
    def probe_actions(self, mst):
        """a handful of actions whose outcome depends on the attacker's footholds in state mst:
        remote actions against non-public hosts and the single-gate near-misses"""
        picks = []
        byc = self.classify(mst)
        for c in ("subnetfw", "hostfw", "pivot", "discovery", "access"):
            if c in byc:
                picks.append(byc[c][0])
        for i, a in enumerate(self.acts):
            if len(picks) >= 5:
                break
            if a.kind in ("exploit", "service_scan") and not self.spec.public(a.target[0]) and i not in picks:
                picks.append(i)
        # ... and a subnet scan from a compromised host (what it discovers depends on that host's subnet only)
        for i, a in enumerate(self.acts):
            if a.kind == "subnet_scan" and mst[a.target][0] and i not in picks:
                picks.append(i)
                break
        return [self.acts[i] for i in picks[:7]]

    def probe_signature(self, state, mst):
        from .oracles import canon_info
        sig = []
        for a in self.probe_actions(mst):
            side, seed, draw = self.pick_seed(a, "lo", 0)
            np.random.seed(seed)
            ns, obs, rew, done, info = self.env.generative_step(state, self.real_action(a))
            sig.append((repr(a), ns.tensor.tobytes(), float(rew), bool(done), repr(canon_info(info))))
        return sig

    def reset(self):
        # Gymnasium's documented reset idioms in turn: reset(), reset(seed=int), reset(options={}), reset(seed=big int)
        n = self.n_resets = getattr(self, "n_resets", 0) + 1
        k = n % 4
        if k == 1:
            obs, info = self.env.reset()
        elif k == 2:
            obs, info = self.env.reset(seed=7919 * n + 3)
        elif k == 3:
            obs, info = self.env.reset(options={})
        else:
            obs, info = self.env.reset(seed=2**40 + n)
        self.shadow_steps = 0
        self.ledger = set()
        self.mst = self.spec.initial()
        self.last_comp = None
        return obs, info

    # ------------------------------------------------------------ op -> action
    def classify(self, mst):
        """gate classes of every flat action in model state mst"""
        byc = {}
        for i, a in enumerate(self.acts):
            g = M.gates(self.spec, mst, a)
            if g == {"pivot", "subnetfw"}:
                # an exploit on a non-public host that no compromised host may reach with the service: the two
                # gates are one and the same fact (no pivot <=> no subnet rule lets the service through)
                byc.setdefault("subnetfw", []).append(i)
            elif len(g) == 1:
                byc.setdefault(next(iter(g)), []).append(i)
            elif not g and a.kind == "exploit":
                inet, sub_ok, full_ok = M.positions(self.spec, mst, a)
                t = a.target
                blocked_inet = self.spec.public(t[0]) and not inet
                if len(sub_ok) > len(full_ok) or (blocked_inet and full_ok):
                    byc.setdefault("passblocked", []).append(i)
        return byc

    def choose(self, op, mst=None):
        mst = self.mst if mst is None else mst
        n = len(self.acts)
        kind = op[0]
        if kind == "p":
            cands = [i for i, a in enumerate(self.acts) if M.changes_state(self.spec, mst, a)]
            if not cands:
                cands = list(range(n))
            return self.acts[cands[op[1] % len(cands)]]
        if kind == "i":
            # redundant-but-applicable: every gate passes, yet the model predicts no state change
            # (re-exploit of a compromised host, USER-granting action on a ROOT host, a second
            # escalation ...) - the probes for "never decreases / paid once / never fails by chance"
            cands = []
            for i, a in enumerate(self.acts):
                if a.kind in ("exploit", "privesc") and mst[a.target][0] and not M.gates(self.spec, mst, a):
                    if M.step(self.spec, mst, a, "lo").state == mst:
                        cands.append(i)
            if not cands:
                cands = [i for i, a in enumerate(self.acts) if M.changes_state(self.spec, mst, a)] or list(range(n))
            return self.acts[cands[op[1] % len(cands)]]
        if kind == "d":
            # depth-first: stay at the most recently compromised host (scan /
            # escalate there) or push outwards to hosts that are reachable only
            # through its subnet
            last = self.last_comp if mst is self.mst else None
            cands = []
            if last is not None and mst[last][0]:
                comp_subnets = {a[0] for a in self.spec.addrs if mst[a][0] and a[0] != last[0]}
                for i, a in enumerate(self.acts):
                    t = a.target
                    if t == last and a.kind in ("subnet_scan", "privesc"):
                        pass
                    elif a.kind == "exploit" and not mst[t][0] and self.spec.conn(last[0], t[0]) \
                            and not any(self.spec.conn(c, t[0]) for c in comp_subnets) \
                            and not self.spec.public(t[0]):
                        pass
                    else:
                        continue
                    if M.changes_state(self.spec, mst, a):
                        cands.append(i)
            if not cands:
                cands = [i for i, a in enumerate(self.acts) if M.changes_state(self.spec, mst, a)]
            if not cands:
                cands = list(range(n))
            return self.acts[cands[op[1] % len(cands)]]
        if kind == "n":
            byc = self.classify(mst)
            order = [c for c in NEAR_ORDER if c in byc]
            if not order:
                return self.acts[op[2] % n]
            cl = byc[order[op[1] % len(order)]]
            return self.acts[cl[op[2] % len(cl)]]
        if kind == "f":
            return self.acts[op[1] % n]
        if kind == "r":
            return self.last_act or self.acts[0]
        if kind == "o":
            return M.Act("noop", (1, 0))
        if kind == "s":
            # passes every gate in exactly one of (current state, a saved state)
            S, mstS = self.saved[op[1] % len(self.saved)]
            cands = [a for a in self.acts
                     if (not M.gates(self.spec, mstS, a)) != (not M.gates(self.spec, mst, a))]
            self.cross = (S, mstS) if cands else None
            if not cands:
                return self.choose(("p", op[2]), mst)
            # two times out of three one that is stopped by network-level gates only (its target is visible in both
            # states: the refusal comes from the pivot / firewall logic, not from the discovery test in front of it)
            net = {"pivot", "subnetfw", "hostfw"}
            sharp = [a for a in cands if (M.gates(self.spec, mst, a) or M.gates(self.spec, mstS, a)) <= net]
            if sharp and op[2] % 3:
                return sharp[(op[2] // 3) % len(sharp)]
            return cands[op[2] % len(cands)]
        if kind == "q":
            # hand-built variant of a progress / near-miss / flat action: required access ROOT (or USER),
            # sometimes another probability / cost than the scenario's definition
            sub, idx, var = op[1], op[2], op[3]
            if sub % 3 == 0:
                base = self.choose(("p", idx), mst)
            elif sub % 3 == 1:
                base = self.choose(("n", idx % 9, idx // 9), mst)
            else:
                base = self.choose(("f", idx), mst)
            # (NONE: no access level required - the host must still be a compromised one)
            req = [M.ROOT, M.ROOT, M.USER, M.NONE, M.ROOT][var % 5]
            prob = [None, None, None, 0.5, 1.0, 0.25, 0.0][(var // 5) % 7]
            cost = [None, None, 7.5, 0.0][(var // 35) % 4]
            return base.variant(req=req, prob=prob, cost=cost)
        raise ValueError(op)


def diff(a, b):
    return {k: (a[k], b[k]) for k in a if a[k] != b.get(k)}


class SourceRejected(Exception):
    """The scenario source could not be turned into a Scenario object (the
    loader rejected a document / the generator raised).  That is owned by C17
    resp. C15; checks that quantify over scenarios skip the case and count it."""

    def __init__(self, owner, msg):
        super().__init__(f"{owner}: {msg}")
        self.owner = owner


def _scenario(fn, owner):
    import sys
    import os
    from . import common
    try:
        return fn()
    except Exception as e:
        from .engine import from_nasim
        inside, where = from_nasim(sys.exc_info()[2])
        if inside:
            raise SourceRejected(owner, f"{type(e).__name__}: {str(e)[:200]} at {where}")
        raise


def build_harness(source, modes=None, foreign=None):
    """foreign: name of a shipped scenario of which an environment is created
    AFTER this one and kept alive (every property must hold whether or not other
    environments exist in the process)"""
    sib = None
    if foreign == "sibling":
        # an environment of the SAME document with its OS / service / process lists declared in the opposite order
        # (same names, same address bounds), created first and kept alive
        foreign = None
        if source["kind"] == "doc" and max(len(source["doc"][k_]) for k_ in ("os", "services", "processes")) > 1:
            import copy
            d2 = copy.deepcopy(source["doc"])
            for k_ in ("os", "services", "processes"):
                d2[k_] = list(reversed(d2[k_]))
            try:
                sib = sources.make_env(sources.scenario_from_doc(d2))
            except Exception:
                sib = None
    h = _build_harness(source, modes)
    h.sibling = sib
    if foreign:
        import nasim
        h.foreign = sources.make_env(nasim.load_scenario(sources.shipped_path(foreign)))
    return h


_GEN = [None]


def _build_harness(source, modes=None):
    kind = source["kind"]
    if kind == "doc":
        doc = source["doc"]
        spec = M.Spec.from_doc(doc)
        scn = _scenario(lambda: sources.scenario_from_doc(doc, flow=source.get("flow")), "C17")
    elif kind == "shipped":
        spec, scn, _ = _scenario(lambda: sources.shipped_case(source["name"]), "C17")
    elif kind == "gen":
        from .budget import BudgetExceeded, guarded_generate

        def gen():
            # only the generator call runs under the line budget (a generator that does not
            # terminate is C15's violation; every other check must not hang on it)
            import nasim
            try:
                if source.get("reuse"):
                    # the documented class API: one long-lived ScenarioGenerator object; after this scenario it
                    # generates another one (smaller values, one host more) - the first must not change
                    from nasim.scenarios.generator import ScenarioGenerator
                    if _GEN[0] is None:
                        _GEN[0] = ScenarioGenerator()
                    scn_ = guarded_generate(lambda: _GEN[0].generate(**source["params"]))
                    spec_ = M.Spec.from_scenario(scn_)        # what the generator returned, read before it goes on
                    other = dict(source["params"], r_sensitive=1, r_user=1, num_hosts=source["params"]["num_hosts"] + 1)
                    other.pop("address_space_bounds", None)
                    guarded_generate(lambda: _GEN[0].generate(**other))
                    return spec_, scn_
                else:
                    scn_ = guarded_generate(lambda: nasim.generate_scenario(**source["params"]))
            except BudgetExceeded:
                raise SourceRejected("C15", "generate_scenario did not return within the line budget")
            return M.Spec.from_scenario(scn_), scn_
        spec, scn = _scenario(gen, "C15")
    else:
        raise ValueError(kind)
    return Harness(spec, scn, modes, tag=kind)


def stale_candidates(h, pre_mst):
    """remote actions that passed every gate in the abandoned state pre_mst and are blocked in the current
    (initial) one - those whose target is visible first"""
    stale = [a for a in h.acts if a.kind in ("exploit", "service_scan", "os_scan")
             and not M.gates(h.spec, pre_mst, a) and M.gates(h.spec, h.mst, a)]
    visible = [a for a in stale if "discovery" not in M.gates(h.spec, h.mst, a)]
    return visible or stale


QUERIES = ["render_state", "render_obs", "render", "render_action", "get_action_mask", "get_minimum_hops",
           "get_score_upper_bound", "goal_reached", "generate_initial_state", "generate_random_initial_state",
           "str", "action_space.sample", "observation_space.sample", "render_state(array)", "render_obs(array)"]


def do_query(h, k):
    """call a read-only public method of the environment; returns (name, what changed or None).
    Exceptions raised by the method itself are swallowed and counted: whether a query works is owned by the
    property about that query (mask C11, hops / bound C20), not by the property being walked."""
    import contextlib
    import io
    env = h.env
    name = QUERIES[k % len(QUERIES)]
    before = (env.current_state.tensor.tobytes(), env.last_obs.tensor.tobytes(), env.steps)
    cur, last = env.current_state, env.last_obs
    try:
        with contextlib.redirect_stdout(io.StringIO()):
            if name == "render_state":
                env.render_state()
            elif name == "render_obs":
                env.render_obs()
            elif name == "render":
                env.render()
            elif name == "render_action":
                env.render_action(h.real_actions[k % len(h.real_actions)])
            elif name == "get_action_mask":
                if h.flat:
                    m_ = env.get_action_mask()
                    if isinstance(m_, np.ndarray) and m_.flags.writeable:
                        m_[...] = 1
            elif name == "get_minimum_hops":
                env.get_minimum_hops()
            elif name == "get_score_upper_bound":
                env.get_score_upper_bound()
            elif name == "goal_reached":
                env.goal_reached()
            elif name == "generate_initial_state":
                got = env.generate_initial_state()
                got.tensor[...] = 1.0           # the caller's own state object (assumed-breach planning ...)
            elif name == "generate_random_initial_state":
                env.generate_random_initial_state()
            elif name == "str":
                str(env)
            elif name == "action_space.sample":
                env.action_space.sample()
            elif name == "observation_space.sample":
                env.observation_space.sample()
            elif name == "render_state(array)":
                env.render_state(state=np.array(env.current_state.tensor, copy=True))
            elif name == "render_obs(array)":
                env.render_obs(obs=np.array(env.last_obs.tensor, copy=True))
    except Exception:
        import sys
        from .engine import from_nasim
        inside, where = from_nasim(sys.exc_info()[2])
        if not inside:
            raise
        h.query_errors = getattr(h, "query_errors", 0) + 1
    after = (env.current_state.tensor.tobytes(), env.last_obs.tensor.tobytes(), env.steps)
    what = None
    if env.current_state is not cur or after[0] != before[0]:
        what = "current state"
    elif env.last_obs is not last or after[1] != before[1]:
        what = "last observation"
    elif after[2] != before[2]:
        what = "step counter"
    return name, what


def run_history(h, ops, on_rec, on_reset=None, both_sides=True, do_gen=True):
    """Execute ops.  on_rec(h, rec, twin) is called for every execution
    (twin = the same-seed generative execution preceding a step, or None);
    on_reset(h, obs, info) after every reset.  Raises Failure from oracles."""
    for op in ops:
        k = op[0]
        if k == "x":
            # a reset is bracketed (every second / third one) by the two things that show what a reset forgets
            # to clear: before it an action that is evaluated but blocked (nothing is updated after it), after it
            # an action that passed every gate in the abandoned state and must be blocked again in the initial one
            n = getattr(h, "n_resets", 0)
            pre_mst = dict(h.mst)
            if n % 3 == 0 and any(v[0] for v in h.mst.values()):
                # evaluated up to the network-level gates (or the chance gate) and refused there
                pre = []
                for a in h.acts:
                    if a.kind not in ("exploit", "service_scan", "os_scan"):
                        continue
                    g = M.gates(h.spec, h.mst, a)
                    if g and g <= {"subnetfw", "hostfw", "pivot"}:
                        pre.append((a, "lo"))
                    elif not g and 0.0 < a.prob < 1.0 and not h.mst[a.target][0]:
                        pre.append((a, "hi"))
                if pre:
                    act, side_ = pre[(n * 17 + len(pre)) % len(pre)]
                    rec = h.exec_step(act, side_, n)
                    on_rec(h, rec, None)
                    h.install(rec)
                    if h.diverged:
                        return "diverged"
            obs, info = h.reset()
            if on_reset:
                on_reset(h, obs, info)
            if n % 2 == 0:
                stale = [a for a in h.acts if a.kind in ("exploit", "service_scan", "os_scan")
                         and not M.gates(h.spec, pre_mst, a) and M.gates(h.spec, h.mst, a)]
                visible = [a for a in stale if "discovery" not in M.gates(h.spec, h.mst, a)]
                stale = visible or stale
                if stale:
                    act = stale[(n * 31 + len(stale)) % len(stale)]
                    rec = h.exec_step(act, "lo", n)
                    on_rec(h, rec, None)
                    h.install(rec)
                    h.stale_probes = getattr(h, "stale_probes", 0) + 1
                    if h.diverged:
                        return "diverged"
            continue
        if k == "c":
            # carry on with a COPY of the environment (copy.deepcopy / pickle round trip) in the middle of the
            # episode: a copy is an environment in the state of its original.  Whether an environment can be copied is
            # nobody's property here: if it cannot, the history simply goes on with the original.
            import copy
            import pickle
            try:
                twin = copy.deepcopy(h.env) if op[1] % 2 == 0 else pickle.loads(pickle.dumps(h.env))
            except Exception:
                h.copy_failed = getattr(h, "copy_failed", 0) + 1
                continue
            h.env = twin
            h.real_actions = list(twin.action_space.actions)
            h.copies = getattr(h, "copies", 0) + 1
            continue
        if k == "v":
            name, what = do_query(h, op[1])
            h.queries = getattr(h, "queries", 0) + 1
            if what is not None:
                # a query that changes the environment: reported by the checks that own purity (C04, C13);
                # every other check stops following this history (its model no longer describes the state)
                h.query_changed = f"{name}() changed the environment's {what}"
                h.diverged = h.query_changed
                return "diverged"
            continue
        if k == "b":
            # burn steps: fast-forward the episode to just before the step limit (large limits are
            # only reached by long histories) - every step still goes through the oracles
            lim = h.spec.step_limit
            if lim is None or lim > 4000:
                continue
            n = lim - h.shadow_steps - (op[1] % 9) - 1
            base = h.last_act or h.acts[op[1] % len(h.acts)]
            noop = M.Act("noop", (1, 0))
            for j in range(max(0, n)):
                act = noop if j % 5 == 4 else base
                rec = h.exec_step(act, "lo", j)
                on_rec(h, rec, None)
                h.install(rec)
                if h.diverged:
                    return "diverged"
            continue
        if k == "g":
            if not h.saved:
                continue
            # half of the time the INITIAL state (saved[0]): whatever the object did since must not matter
            state, mst = h.saved[0 if op[1] % 2 == 0 else (op[1] // 2) % len(h.saved)]
            # progress / near-miss / any flat action in that EARLIER state: the result must depend
            # on (state, action) only, whatever the environment object did in between
            sub = op[2] % 3
            scanners = [a for a in h.acts if a.kind == "subnet_scan" and mst[a.target][0]]
            if op[2] % 8 == 7 and scanners:
                # a subnet scan from a compromised host of THAT state, whether or not it still discovers anything there
                act = scanners[(op[2] // 8) % len(scanners)]
            elif sub == 0:
                act = h.choose(("p", op[2] // 3), mst)
            elif sub == 1:
                act = h.choose(("n", (op[2] // 3) % 9, op[2] // 27), mst)
            else:
                act = h.choose(("f", op[2] // 3), mst)
            probing = getattr(h, "probe_saved", False)
            if probing:
                key = id(state)
                if key not in h.probes:
                    h.probes[key] = h.probe_signature(state, mst)
            # (now and then on a fresh copy of the saved state: a state is its tensor, not the object)
            rec = h.exec_gen(state.copy() if op[2] % 7 == 5 else state, mst, act, op[3], op[4], opname="g")
            on_rec(h, rec, None)
            if probing:
                now = h.probe_signature(state, mst)
                for (a0, t0, r0, d0, i0), (a1, t1, r1, d1, i1) in zip(h.probes[key], now):
                    if (t0, r0, d0, i0) != (t1, r1, d1, i1):
                        raise Failure("C13:state-object-changed",
                                      f"generative_step({a0}) on one and the same earlier state object gives a different result after "
                                      f"generative_step({rec.act}) was called on that object (its tensor is unchanged: {rec.purity['arg_unchanged']})")
            continue
        act = h.choose(op)
        if k == "s" and h.cross is not None:
            S, mstS = h.cross
            rec = h.exec_gen(S, mstS, act, op[3], op[4], opname="g")
            on_rec(h, rec, None)
            h.cross_probes = getattr(h, "cross_probes", 0) + 1
        side, ks = (op[-2], op[-1]) if k != "o" else ("lo", 0)
        twin = None
        if do_gen:
            twin = h.exec_gen(h.env.current_state, h.mst, act, side, ks)
            on_rec(h, twin, None)
            if both_sides and 0.0 < act.prob < 1.0:
                other = "hi" if twin.side == "lo" else "lo"
                alt = h.exec_gen(h.env.current_state, h.mst, act, other, ks, opname="alt")
                if alt.side == other:
                    on_rec(h, alt, twin)
        rec = h.exec_step(act, side, ks)
        on_rec(h, rec, twin)
        h.install(rec)
        if h.diverged:
            return "diverged"
    return "ok"
