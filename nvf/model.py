"""Reference model of NASim's dynamics, written from the property statements
(C01-C08) on plain Python data - NOT a transcription of nasim/envs/network.py.

Spec      static scenario description (from a generated *document* or from an
          independent reading of a Scenario's public fields)
Act       abstract action
gates()   set of failing precondition gates, each evaluated independently
step()    predicted outcome for one draw side ('lo' = draw < prob, 'hi' = draw > prob)
"""
NONE, USER, ROOT = 0, 1, 2

NET_GATES = ("discovery", "pivot", "subnetfw", "hostfw", "access")
HOST_GATES = ("service", "os", "process")
SCANS = ("service_scan", "os_scan", "subnet_scan", "process_scan")


def norm_access(a):
    if isinstance(a, str):
        return {"user": USER, "root": ROOT}[a]
    return int(a)


def norm_os(o):
    if o is None or str(o).lower() == "none":
        return None
    return str(o)


class Spec:
    def __init__(self):
        self.subnets = None
        self.topology = None
        self.os = self.services = self.processes = None
        self.sensitive = None
        self.exploits = None
        self.privescs = None
        self.scan_cost = None
        self.firewall = None
        self.step_limit = None
        self.hosts = None
        self.addrs = None
        self.bounds = None

    # ---------------------------------------------------------------- sources
    @classmethod
    def from_doc(cls, doc):
        """doc: python-native document in the documented YAML format (tuple
        keys for addresses / connections)."""
        s = cls()
        s.subnets = [1] + [int(x) for x in doc["subnets"]]
        s.topology = [[int(c) for c in r] for r in doc["topology"]]
        s.os = [str(x) for x in doc["os"]]
        s.services = [str(x) for x in doc["services"]]
        s.processes = [str(x) for x in doc["processes"]]
        s.sensitive = {tuple(a): float(v) for a, v in doc["sensitive_hosts"].items()}
        s.exploits = {}
        for n, d in doc["exploits"].items():
            s.exploits[str(n)] = dict(service=str(d["service"]), os=norm_os(d["os"]),
                                      prob=float(d["prob"]), cost=float(d["cost"]),
                                      access=norm_access(d["access"]),
                                      req=int((doc.get("_req_access") or {}).get(n, USER)))
        s.privescs = {}
        for n, d in doc["privilege_escalation"].items():
            s.privescs[str(n)] = dict(process=str(d["process"]), os=norm_os(d["os"]),
                                      prob=float(d["prob"]), cost=float(d["cost"]),
                                      access=norm_access(d["access"]))
        s.scan_cost = {k: float(doc[k + "_cost"]) for k in SCANS}
        s.firewall = {tuple(k): set(str(x) for x in v) for k, v in doc["firewall"].items()}
        s.step_limit = doc.get("step_limit")
        s.hosts = {}
        for addr, cfg in doc["host_configurations"].items():
            addr = tuple(addr)
            value = s.sensitive.get(addr, cfg.get("value", 0))
            s.hosts[addr] = dict(
                os=str(cfg["os"]),
                services=set(str(x) for x in cfg["services"]),
                processes=set(str(x) for x in cfg["processes"]),
                deny={tuple(k): set(str(x) for x in v)
                      for k, v in (cfg.get("firewall") or {}).items()},
                value=float(value),
                dvalue=float((doc.get("_discovery_values") or {}).get(addr, 0.0)))
        s.addrs = list(s.hosts)
        s.bounds = tuple(doc.get("_bounds") or
                         (len(s.subnets), max(s.subnets)))
        return s

    @classmethod
    def from_scenario(cls, scn):
        """Independent reading of a Scenario's *public* fields (used for
        generated scenarios, which have no source document)."""
        s = cls()
        s.subnets = [int(x) for x in scn.subnets]
        s.topology = [[int(c) for c in r] for r in scn.topology]
        s.os = [str(x) for x in scn.os]
        s.services = [str(x) for x in scn.services]
        s.processes = [str(x) for x in scn.processes]
        s.sensitive = {tuple(int(i) for i in a): float(v)
                       for a, v in scn.sensitive_hosts.items()}
        s.exploits = {}
        for n, d in scn.exploits.items():
            s.exploits[str(n)] = dict(service=str(d["service"]), os=norm_os(d["os"]),
                                      prob=float(d["prob"]), cost=float(d["cost"]),
                                      access=norm_access(d["access"]),
                                      req=int(d.get("req_access", USER)))
        s.privescs = {}
        for n, d in scn.privescs.items():
            s.privescs[str(n)] = dict(process=str(d["process"]), os=norm_os(d["os"]),
                                      prob=float(d["prob"]), cost=float(d["cost"]),
                                      access=norm_access(d["access"]))
        s.scan_cost = dict(service_scan=float(scn.service_scan_cost),
                           os_scan=float(scn.os_scan_cost),
                           subnet_scan=float(scn.subnet_scan_cost),
                           process_scan=float(scn.process_scan_cost))
        s.firewall = {tuple(int(i) for i in k): set(str(x) for x in v)
                      for k, v in scn.firewall.items()}
        s.step_limit = scn.step_limit
        s.hosts = {}
        for addr, h in scn.hosts.items():
            addr = tuple(int(i) for i in addr)
            oss = [str(o) for o, v in h.os.items() if v]
            s.hosts[addr] = dict(
                os=oss[0] if len(oss) == 1 else tuple(oss),
                services=set(str(k) for k, v in h.services.items() if v),
                processes=set(str(k) for k, v in h.processes.items() if v),
                deny={tuple(k) if isinstance(k, (tuple, list)) else k:
                      set(str(x) for x in v) for k, v in h.firewall.items()},
                value=float(h.value), dvalue=float(h.discovery_value))
        s.addrs = list(s.hosts)
        s.bounds = tuple(int(b) for b in scn.address_space_bounds)
        return s

    # ---------------------------------------------------------------- helpers
    def conn(self, a, b):
        return self.topology[a][b] == 1

    def public(self, s):
        return self.topology[s][0] == 1

    def subnet_allows(self, a, b, svc):
        """subnet firewall: traffic inside one subnet is always allowed"""
        if a == b:
            return True
        return self.conn(a, b) and svc in self.firewall.get((a, b), ())

    def initial(self):
        st = {}
        for a in self.addrs:
            pub = self.public(a[0])
            st[a] = (False, NONE, pub, pub)   # comp, acc, reach, disc
        return st

    def goal(self, st):
        return all(st[a][1] >= ROOT for a in self.sensitive)

    def fingerprint(self):
        from .common import stable_hash
        return stable_hash([self.subnets, self.topology, self.os, self.services,
                            self.processes, self.sensitive, self.exploits,
                            self.privescs, self.scan_cost, self.firewall,
                            self.step_limit, self.hosts, self.bounds])


def state_key(st):
    return tuple((a,) + tuple(v) for a, v in sorted(st.items()))


class Act:
    __slots__ = ("kind", "target", "name", "cost", "prob", "req", "service",
                 "process", "os", "grant", "custom")

    def __init__(self, kind, target, name=None, d=None, cost=0.0):
        self.kind, self.target, self.name = kind, target, name
        self.custom = None
        self.cost = float(cost)
        self.prob = 1.0
        self.req = USER
        self.service = self.process = self.os = None
        self.grant = None
        if kind == "exploit":
            self.service = d["service"]
            self.os = d["os"]
            self.prob, self.cost, self.grant = d["prob"], d["cost"], d["access"]
            self.req = d.get("req", USER)
        elif kind == "privesc":
            self.process = d["process"]
            self.os = d["os"]
            self.prob, self.cost, self.grant = d["prob"], d["cost"], d["access"]
        elif kind == "noop":
            self.cost = 0.0
            self.req = NONE

    def key(self):
        if self.custom:
            return (self.kind, self.target, self.name, self.custom)
        return (self.kind, self.target, self.name)

    def variant(self, req=None, prob=None, cost=None):
        """the same action built by hand through the public Action constructors with another
        required access / probability / cost"""
        v = Act.__new__(Act)
        for k in Act.__slots__:
            setattr(v, k, getattr(self, k))
        if req is not None:
            v.req = req
        if prob is not None:
            v.prob = prob
        if cost is not None:
            v.cost = float(cost)
        v.custom = ("hand-built", v.req, v.prob, v.cost)
        return v

    def __repr__(self):
        c = f"[hand-built req={self.req} prob={self.prob} cost={self.cost}]" if self.custom else ""
        return f"{self.kind}{':' + self.name if self.name else ''}@{self.target}{c}"


def flat_actions(spec):
    """The documented flat action set: per host 4 scans, every exploit, every
    escalation."""
    out = []
    for a in spec.addrs:
        for k in SCANS:
            out.append(Act(k, a, cost=spec.scan_cost[k]))
        for n, d in spec.exploits.items():
            out.append(Act("exploit", a, n, d))
        for n, d in spec.privescs.items():
            out.append(Act("privesc", a, n, d))
    return out


def positions(spec, st, act):
    """Attacker positions from which an exploit's traffic may originate:
    returns (internet_ok, subnet_ok_hosts, fully_ok_hosts)."""
    t = act.target
    comp = [a for a in spec.addrs if st[a][0]]
    inet = spec.public(t[0]) and act.service in spec.firewall.get((0, t[0]), ())
    subnet_ok = [p for p in comp if spec.subnet_allows(p[0], t[0], act.service)]
    deny = spec.hosts[t]["deny"]
    full_ok = [p for p in subnet_ok if act.service not in deny.get(p, ())]
    return inet, subnet_ok, full_ok


def gates(spec, st, act):
    """Set of failing gates, each evaluated independently of the others."""
    g = set()
    if act.kind == "noop":
        return g
    t = act.target
    h = spec.hosts[t]
    comp_t, acc_t, reach_t, disc_t = st[t]
    if not (reach_t and disc_t):
        g.add("discovery")
    comp = [a for a in spec.addrs if st[a][0]]
    if act.kind in ("service_scan", "os_scan", "exploit") and not spec.public(t[0]):
        if act.kind == "exploit":
            ok = any(st[p][1] >= act.req and spec.subnet_allows(p[0], t[0], act.service)
                     for p in comp)
        else:
            ok = any(st[p][1] >= act.req and spec.conn(p[0], t[0]) for p in comp)
        if not ok:
            g.add("pivot")
    if act.kind == "exploit":
        inet, subnet_ok, full_ok = positions(spec, st, act)
        if not inet and not full_ok:
            g.add("hostfw" if subnet_ok else "subnetfw")
        if act.service not in h["services"]:
            g.add("service")
        if act.os is not None and act.os != h["os"]:
            g.add("os")
    if act.kind in ("subnet_scan", "process_scan", "privesc"):
        if not (comp_t and acc_t >= act.req):
            g.add("access")
    if act.kind == "privesc":
        if act.process is not None and act.process not in h["processes"]:
            g.add("process")
        if act.os is not None and act.os != h["os"]:
            g.add("os")
    return g


def reach_of(spec, st_comp_subnets, addr):
    s = addr[0]
    return spec.public(s) or any(spec.conn(c, s) for c in st_comp_subnets)


class Pred:
    __slots__ = ("success", "state", "value", "newly", "discovered", "gates",
                 "chance", "immune")


def step(spec, st, act, side):
    """Predict the outcome of act in st when the uniform draw lies on `side`
    of act.prob ('lo': draw < prob -> chance succeeds; 'hi': draw > prob)."""
    p = Pred()
    p.gates = gates(spec, st, act)
    p.state = dict(st)
    p.value = 0.0
    p.newly, p.discovered = [], []
    p.success = False
    p.immune = act.kind == "exploit" and bool(st[act.target][0])
    p.chance = False
    if act.kind == "noop":
        p.success = True
        return p
    if p.gates:
        return p
    if not p.immune:
        p.chance = True
        if side != "lo":
            return p
    p.success = True
    t = act.target
    if act.kind in ("exploit", "privesc"):
        comp, acc, reach, disc = st[t]
        new_acc = max(acc, act.grant)
        p.state[t] = (True, new_acc, reach, disc)
        if acc < ROOT <= new_acc:
            p.value = spec.hosts[t]["value"]
        comp_subnets = {a[0] for a in spec.addrs if p.state[a][0]}
        for a in spec.addrs:
            c, ac, r, d = p.state[a]
            r2 = reach_of(spec, comp_subnets, a)
            if r2 != r:
                p.state[a] = (c, ac, r2, d)
    elif act.kind == "subnet_scan":
        for a in spec.addrs:
            if spec.conn(t[0], a[0]):
                p.discovered.append(a)
                c, ac, r, d = p.state[a]
                if not d:
                    p.state[a] = (c, ac, r, True)
                    p.newly.append(a)
                    p.value += spec.hosts[a]["dvalue"]
    return p


def resolve_side(act, side):
    """The sides that exist: prob >= 1 has no 'hi' draws, prob <= 0 no 'lo'."""
    if act.prob >= 1.0:
        return "lo"
    if act.prob <= 0.0:
        return "hi"
    return side


def changes_state(spec, st, act):
    if act.prob <= 0 and not (act.kind == "exploit" and st[act.target][0]):
        return False
    return step(spec, st, act, "lo").state != st
