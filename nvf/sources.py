"""Scenario sources S1-S4 (DESIGN.md §2.1): shipped files, generated scenarios,
random documents, post-edited dict scenarios."""
import glob
import os

import yaml
from hypothesis import strategies as st

from . import common, docs
from .model import Spec

BENCH_DIR = os.path.join(common.REPO, "nasim", "scenarios", "benchmark")
SHIPPED = ["tiny", "tiny-hard", "tiny-small", "small", "small-honeypot",
           "small-linear", "medium", "medium-single-site", "medium-multi-site"]


def shipped_path(name):
    return os.path.join(BENCH_DIR, name + ".yaml")


def shipped_names():
    have = sorted(os.path.basename(p)[:-5] for p in glob.glob(os.path.join(BENCH_DIR, "*.yaml")))
    return [n for n in SHIPPED if n in have] + [n for n in have if n not in SHIPPED]


def read_shipped_doc(name):
    """Independent reading of a shipped YAML file into the python-native
    document form (yaml.safe_load + own normaliser; no nasim code)."""
    import ast
    with open(shipped_path(name)) as f:
        y = yaml.safe_load(f)

    def t(k):
        return tuple(ast.literal_eval(k))
    d = dict(y)
    d["sensitive_hosts"] = {t(k): v for k, v in y["sensitive_hosts"].items()}
    d["firewall"] = {t(k): list(v) for k, v in y["firewall"].items()}
    hc = {}
    for a, cfg in y["host_configurations"].items():
        c = dict(cfg)
        if "firewall" in c:
            c["firewall"] = {t(k): list(v) for k, v in c["firewall"].items()}
        hc[t(a)] = c
    d["host_configurations"] = hc
    return d


_CNT = [0]


def scenario_from_doc(doc, flow=None):
    """document -> YAML file -> nasim.load_scenario (+ S4 edits through the
    public Scenario / Host objects)."""
    import nasim
    _CNT[0] += 1
    path = os.path.join(docs.tmpdir(), f"d{os.getpid()}_{_CNT[0]}.yaml")
    docs.dump(doc, path, flow=flow)
    try:
        scn = nasim.load_scenario(path)
    finally:
        try:
            os.unlink(path)
        except OSError:
            pass
    apply_extras(scn, doc)
    return scn


def apply_extras(scn, doc):
    dv = doc.get("_discovery_values")
    if dv:
        for a, v in dv.items():
            scn.hosts[a].discovery_value = v
    b = doc.get("_bounds")
    if b:
        scn.scenario_dict["address_space_bounds"] = tuple(b)
    for name, lvl in (doc.get("_req_access") or {}).items():
        scn.exploits[name]["req_access"] = lvl


def make_env(scn, fully_obs=False, flat_actions=True, flat_obs=True, render_mode=None):
    from nasim.envs import NASimEnv
    if render_mode is not None:
        return NASimEnv(scn, fully_obs=fully_obs, flat_actions=flat_actions, flat_obs=flat_obs, render_mode=render_mode)
    return NASimEnv(scn, fully_obs=fully_obs, flat_actions=flat_actions,
                    flat_obs=flat_obs)


def shipped_case(name):
    """(spec, scenario) for a shipped benchmark; spec comes from the YAML text,
    scenario from nasim's loader."""
    import nasim
    doc = read_shipped_doc(name)
    spec = Spec.from_doc(doc)
    scn = nasim.load_scenario(shipped_path(name))
    return spec, scn, doc


# ------------------------------------------------------------ generator params
@st.composite
def gen_params(draw, max_hosts=12, max_services=5, small=True):
    """Parameter sets in the documented domain of nasim.generate_scenario
    (DESIGN.md C15 'Domain')."""
    H = draw(st.integers(3, max_hosts))
    S = draw(st.integers(1, max_services))
    O = draw(st.integers(1, 4))
    P = draw(st.integers(1, 4))
    p = dict(num_hosts=H, num_services=S, num_os=O, num_processes=P)
    if draw(st.booleans()):
        p["num_exploits"] = draw(st.integers(1, S * (O + 1)))
    if draw(st.booleans()):
        p["num_privescs"] = draw(st.integers(1, P * (O + 1)))
    ne = p.get("num_exploits", S)
    npe = p.get("num_privescs", P)
    p["restrictiveness"] = draw(st.sampled_from([1, 1, 2, 2, 3, 4, 5, 6]))
    uniform = draw(st.booleans()) and S <= 8 and P <= 8
    p["uniform"] = uniform
    if not uniform:
        vals = [0.01, 0.5, 1.0, 2.0, 5.0, 50.0]
        p["alpha_H"] = draw(st.sampled_from(vals))
        p["alpha_V"] = draw(st.sampled_from(vals))
        p["lambda_V"] = draw(st.sampled_from(vals))
    ep = draw(st.sampled_from(["default", "none", "mixed", "float", "list"]))
    if ep == "none":
        p["exploit_probs"] = None
    elif ep == "mixed":
        p["exploit_probs"] = "mixed"
    elif ep == "float":
        p["exploit_probs"] = draw(st.sampled_from([1.0, 0.5, 0.25, 0.9]))
    elif ep == "list":
        p["exploit_probs"] = [draw(st.sampled_from([1.0, 0.5, 0.25, 0.9])) for _ in range(ne)]
    pp = draw(st.sampled_from(["default", "none", "float", "list"]))
    if pp == "none":
        p["privesc_probs"] = None
    elif pp == "float":
        p["privesc_probs"] = draw(st.sampled_from([1.0, 0.5, 0.75]))
    elif pp == "list":
        p["privesc_probs"] = [draw(st.sampled_from([1.0, 0.5, 0.75])) for _ in range(npe)]
    p["random_goal"] = draw(st.booleans())
    if draw(st.booleans()):
        p["r_sensitive"] = draw(st.sampled_from([10, 100, 1, 0.5, 7.25]))
        p["r_user"] = draw(st.sampled_from([10, 100, 1, 0.5, 3]))
    if draw(st.booleans()):
        p["exploit_cost"] = draw(st.sampled_from([1, 2, 0.5, 3.25, 0.125, 1.004]))
        p["privesc_cost"] = draw(st.sampled_from([1, 2, 0.5, 1.5, 0.375]))
        p["service_scan_cost"] = draw(st.sampled_from([1, 0, 2, 0.5, 0.3]))
        p["os_scan_cost"] = draw(st.sampled_from([1, 0, 2, 0.25, 0.7]))
        p["subnet_scan_cost"] = draw(st.sampled_from([1, 0, 3, 0.5, 0.3, 0.1]))
        p["process_scan_cost"] = draw(st.sampled_from([1, 0, 2, 0.75, 0.2]))
    if draw(st.booleans()):
        p["base_host_value"] = draw(st.sampled_from([1, 0, 2, 0.5]))
        p["host_discovery_value"] = draw(st.sampled_from([1, 0, 2, 0.5, 40, 250]))
    if draw(st.booleans()):
        p["step_limit"] = draw(st.integers(1, 200)) if draw(st.integers(0, 4)) else draw(st.sampled_from([201, 500, 1500]))
    if draw(st.integers(0, 3)) == 0:
        # custom (larger) address space bounds
        import math
        nsub = 3 + math.ceil((H - math.ceil(H / 40) - math.ceil(H / 41)) / 5)
        p["address_space_bounds"] = (nsub + draw(st.integers(0, 4)),
                                     5 + draw(st.integers(0, 4)))
        if draw(st.integers(0, 9)) == 0 and H <= 12:
            p["address_space_bounds"] = (nsub + draw(st.integers(0, 2)), 1000 + draw(st.integers(1, 300)))
    p["seed"] = draw(st.integers(0, 2**31 - 1)) if draw(st.integers(0, 9)) else draw(st.sampled_from([0, 1, 2**31, 2**32 - 1]))
    if draw(st.integers(0, 7)) == 0:
        p["name"] = draw(st.sampled_from(["my scenario", "tiny", "", "s-1"]))
    return p


@st.composite
def gen_params_large(draw):
    """40-70 hosts: tensors beyond 1000 entries, many subnets"""
    p = draw(gen_params(max_hosts=12, max_services=4))
    p["num_hosts"] = draw(st.integers(40, 70))
    p.pop("address_space_bounds", None)
    p["uniform"] = False
    p.setdefault("alpha_H", 2.0)
    p.setdefault("alpha_V", 2.0)
    p.setdefault("lambda_V", 1.0)
    return p


@st.composite
def gen_params_many_features(draw):
    """few hosts, but many services / OS / processes (55-90 configuration flags per host)"""
    p = draw(gen_params(max_hosts=8, max_services=3))
    p["num_services"] = draw(st.integers(25, 45)) if draw(st.booleans()) else draw(st.integers(54, 70))
    p["num_os"] = draw(st.integers(5, 12))
    p["num_processes"] = draw(st.integers(20, 35))
    for k in ("num_exploits", "num_privescs", "address_space_bounds"):
        p.pop(k, None)
    if isinstance(p.get("exploit_probs"), list):
        p["exploit_probs"] = 0.5
    if isinstance(p.get("privesc_probs"), list):
        p["privesc_probs"] = 0.75
    p["uniform"] = False
    p.setdefault("alpha_H", 2.0)
    p.setdefault("alpha_V", 2.0)
    p["lambda_V"] = draw(st.sampled_from([5.0, 50.0, 2.0]))
    if draw(st.booleans()):
        p["num_exploits"] = draw(st.integers(20, 60))
        p["num_privescs"] = draw(st.integers(10, 30))
    return p


@st.composite
def gen_params_huge(draw):
    """hundreds of hosts: the DMZ / sensitive subnets (one host per 40 / 41) outgrow the user subnets (5 hosts),
    dozens of subnets"""
    p = draw(gen_params(max_hosts=12, max_services=3))
    p["num_hosts"] = draw(st.sampled_from([100, 160, 199, 200, 201, 202, 240, 321, 400])) + draw(st.integers(0, 3))
    p.pop("address_space_bounds", None)
    p["uniform"] = False
    p.setdefault("alpha_H", 2.0)
    p.setdefault("alpha_V", 2.0)
    p.setdefault("lambda_V", 1.0)
    if isinstance(p.get("exploit_probs"), list) or isinstance(p.get("privesc_probs"), list):
        p["exploit_probs"], p["privesc_probs"] = 0.5, 0.75
    return p


@st.composite
def gen_params_near_capacity(draw):
    """requests at or just below the number of distinct definitions that can exist:
    num_exploits ~ S*(O+1), num_privescs ~ P*(O+1), with capacities from 4 to ~400"""
    p = draw(gen_params(max_hosts=6, max_services=3))
    S = draw(st.sampled_from([2, 3, 5, 8, 12, 20, 30, 50, 60]))
    O = draw(st.integers(1, 6))
    P = draw(st.sampled_from([1, 2, 4, 8, 15, 30]))
    p.update(num_services=S, num_os=O, num_processes=P)
    p.pop("address_space_bounds", None)
    if isinstance(p.get("exploit_probs"), list):
        p["exploit_probs"] = 0.5
    if isinstance(p.get("privesc_probs"), list):
        p["privesc_probs"] = 0.75
    p["uniform"] = False
    p.setdefault("alpha_H", 2.0)
    p.setdefault("alpha_V", 2.0)
    p.setdefault("lambda_V", 5.0)
    ce, cp = S * (O + 1), P * (O + 1)
    p["num_exploits"] = max(1, ce - draw(st.sampled_from([0, 0, 1, 2, ce // 33, ce // 10])))
    if draw(st.booleans()):
        p["num_privescs"] = max(1, cp - draw(st.sampled_from([0, 0, 1, 2, cp // 10])))
    else:
        p.pop("num_privescs", None)
    return p


@st.composite
def gen_params_many_probabilities(draw):
    """probabilities SAMPLED by the generator (exploit_probs / privesc_probs None) for hundreds of definitions per
    scenario: the open end of the interval (0, 1] is only visited by many draws"""
    p = draw(gen_params_near_capacity())
    S, O, P = draw(st.sampled_from([30, 50, 60])), draw(st.integers(3, 6)), draw(st.sampled_from([15, 30]))
    p.update(num_services=S, num_os=O, num_processes=P, exploit_probs=None, privesc_probs=None,
             num_exploits=S * (O + 1) - draw(st.integers(0, 9)), num_privescs=P * (O + 1) - draw(st.integers(0, 5)))
    return p


def generated_case(params):
    import nasim
    scn = nasim.generate_scenario(**params)
    spec = Spec.from_scenario(scn)
    return spec, scn
