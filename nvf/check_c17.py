"""C17 A loaded YAML scenario means exactly what the file says."""
import os
import sys

import numpy as np
import yaml
from hypothesis import strategies as st

from . import common, docs, draws, engine, model as M, oracles as O, sources, walk
from .common import Failure, Reporter

PID = "C17"
RULE = ("cases = documents in the documented YAML format (random documents S3: several public subnets, asymmetric / empty allow-lists, "
        "host deny-lists, OS none/None, prob in {0, .25, .5, .8, .9, 1, 1.0}, fractional costs, values of any sign, empty escalation "
        "section, with/without step limit; rendered in block or flow style with int/float spelling varied) and the shipped files. "
        "Each must load; the Scenario is compared field by field with an independent reading of the same document; documents with "
        "a host deny-list or a one-directional subnet rule additionally run a C02-oracle near-miss history on nasim.load(path). "
        "Non-trivial = document with at least one of {host deny-list, prob 1 / 1.0, empty escalation section, negative value, no "
        "step limit, OS none}; distinct by document fingerprint.")


def spell(doc, mode):
    """vary int / float spelling where the format allows numbers"""
    import copy
    d = copy.deepcopy(doc)
    if mode == 0:
        return d

    def f(x):
        if isinstance(x, bool):
            return x
        if mode == 1 and isinstance(x, int):
            return float(x)
        if mode == 2 and isinstance(x, float) and x == int(x):
            return int(x)
        return x
    for sec in ("exploits", "privilege_escalation"):
        for e in d[sec].values():
            e["prob"], e["cost"] = f(e["prob"]), f(e["cost"])
    for k in ("service_scan_cost", "os_scan_cost", "subnet_scan_cost", "process_scan_cost"):
        d[k] = f(d[k])
    d["sensitive_hosts"] = {a: f(v) for a, v in d["sensitive_hosts"].items()}
    for a, c in d["host_configurations"].items():
        if "value" in c:
            c["value"] = f(c["value"])
    return d


def compare(doc, scn):
    spec = M.Spec.from_doc(doc)

    def bad(clause, msg):
        raise Failure(f"C17:{clause}", msg)
    if [int(x) for x in scn.subnets] != [1] + [int(x) for x in doc["subnets"]]:
        bad("subnets", f"subnets {list(scn.subnets)} vs file {doc['subnets']}")
    if [[int(c) for c in r] for r in scn.topology] != [[int(c) for c in r] for r in doc["topology"]]:
        bad("topology", "topology differs from the file")
    for k in ("os", "services", "processes"):
        if [str(x) for x in getattr(scn, k)] != [str(x) for x in doc[k]]:
            bad(k, f"{k} {list(getattr(scn, k))} vs file {doc[k]}")
    if [tuple(a) for a in scn.hosts] != spec.addrs:
        bad("host-set", f"hosts {list(scn.hosts)} vs file {spec.addrs}")
    for a, h in scn.hosts.items():
        m = spec.hosts[tuple(a)]
        if tuple(h.address) != tuple(a):
            bad("host-address", f"host {a} has address {h.address}")
        if [o for o, v in h.os.items() if v] != [m["os"]] or list(h.os) != spec.os:
            bad("host-os", f"host {a} os {h.os} vs file {m['os']}")
        if {s for s, v in h.services.items() if v} != m["services"] or list(h.services) != spec.services:
            bad("host-services", f"host {a} services {h.services} vs file {sorted(m['services'])}")
        if {s for s, v in h.processes.items() if v} != m["processes"] or list(h.processes) != spec.processes:
            bad("host-processes", f"host {a} processes {h.processes} vs file {sorted(m['processes'])}")
        if float(h.value) != m["value"]:
            bad("host-value", f"host {a} value {h.value} vs file {m['value']}")
        fw = h.firewall
        if any(not isinstance(k, tuple) for k in fw) or {tuple(k): set(v) for k, v in fw.items()} != m["deny"]:
            bad("host-firewall", f"host {a} deny-list {fw} vs file {m['deny']} (keys must be address tuples)")
    if {tuple(k): set(v) for k, v in scn.firewall.items()} != spec.firewall \
       or any(len(set(v)) != len(list(v)) for v in scn.firewall.values()):
        bad("firewall", f"subnet firewall {scn.firewall} vs file {spec.firewall}")
    if {tuple(k): float(v) for k, v in scn.sensitive_hosts.items()} != spec.sensitive:
        bad("sensitive", f"sensitive hosts {scn.sensitive_hosts} vs file {spec.sensitive}")
    for sec, got, tgt in (("exploits", scn.exploits, "service"), ("privescs", scn.privescs, "process")):
        want = getattr(spec, sec)
        if [str(n) for n in got] != list(want):
            bad(f"{sec}-names", f"{sec} {list(got)} vs file {list(want)}")
        for n, d in want.items():
            e = got[n]
            g = (str(e[tgt]), None if e["os"] is None else str(e["os"]), float(e["prob"]), float(e["cost"]), e["access"])
            w = (d[tgt], d["os"], d["prob"], d["cost"], d["access"])
            if g != w or isinstance(e["access"], str):
                bad(f"{sec}-definition", f"{sec} {n}: {g} vs file {w}")
    for k in M.SCANS:
        if float(getattr(scn, k + "_cost")) != spec.scan_cost[k]:
            bad("scan-cost", f"{k}_cost {getattr(scn, k + '_cost')} vs file {spec.scan_cost[k]}")
    if scn.step_limit != doc.get("step_limit"):
        bad("step-limit", f"step limit {scn.step_limit} vs file {doc.get('step_limit')}")
    return spec


def features(doc):
    f = set()
    if any(c.get("firewall") for c in doc["host_configurations"].values()):
        f.add("host-deny-list")
    if any(e["prob"] in (1, 1.0) for e in doc["exploits"].values()):
        f.add("exploit-prob-1")
    if not doc["privilege_escalation"]:
        f.add("empty-escalations")
    if any(c.get("value", 0) < 0 for c in doc["host_configurations"].values()):
        f.add("negative-value")
    if "step_limit" not in doc:
        f.add("no-step-limit")
    if any(str(e["os"]).lower() == "none" for e in doc["exploits"].values()):
        f.add("os-none")
    if any(set(doc["firewall"][(a, b)]) != set(doc["firewall"].get((b, a), [])) for (a, b) in doc["firewall"]):
        f.add("asymmetric-rule")
    return f


def _norm_msg(m):
    import re
    m = re.sub(r"^\S+\. ", "", m)
    m = re.sub(r"'[^']*'", "'..'", m)
    m = re.sub(r"[0-9.()]+", "#", m)
    return m[:40]


class _CountOnly:
    """lets the C02 oracle count its classes without touching C17's non-triviality set"""

    def __init__(self, rep):
        self.rep = rep

    def nontriv(self, *a):
        pass

    def count(self, key, n=1):
        if self.rep is not None:
            self.rep.count("walk:" + key, n)


def behaviour(doc, spec, path, ops, rep, record):
    """the environment built by nasim.load(path) enforces the rules of the file"""
    import nasim
    from . import checks_dyn
    env = nasim.load(path)
    h = walk.Harness(spec, env.scenario, {}, env=env)

    proxy = _CountOnly(rep if record else None)

    # the initial state of the environment shows every host as the file defines it ...
    from .check_c09 import check_initial
    check_initial(h, env.scenario, proxy)

    def on_rec(hh, rec, twin):
        # ... and its dynamics follow the file's hosts (C01 oracle) and rules (C02 oracle)
        O.c01(hh, rec, twin, proxy)
        O.c02(hh, rec, twin, proxy)
    for op in ops:
        res = walk.run_history(h, [tuple(op)], on_rec, None, both_sides=False, do_gen=False)
        if res == "diverged":
            break


_LOADS = [0]
_LOADER = [None]


def run_case(case, rep, record=True):
    import nasim
    failed = set()
    try:
        src = case["source"]
        if record:
            rep.evaluated()
        if src["kind"] == "shipped":
            doc = sources.read_shipped_doc(src["name"])
            path = sources.shipped_path(src["name"])
            tmp = None
        else:
            doc = spell(src["doc"], case.get("spelling", 0))
            tmp = path = os.path.join(docs.tmpdir(), f"c17_{os.getpid()}.yaml")
            docs.dump(doc, path, flow=src.get("flow"), rotate=case.get("rotate", 0))
        sib = None
        if case.get("sibling") and src["kind"] != "shipped" and max(len(doc[k_]) for k_ in ("os", "services", "processes")) > 1:
            # another file loaded earlier in the same process: the same document with its OS / service / process
            # lists in the opposite order (what one file says must not depend on what was loaded before it)
            import copy
            d2 = copy.deepcopy(doc)
            for k_ in ("os", "services", "processes"):
                d2[k_] = list(reversed(d2[k_]))
            p2 = os.path.join(docs.tmpdir(), f"c17_{os.getpid()}_sibling.yaml")
            docs.dump(d2, p2)
            try:
                sib = nasim.load(p2)
            except Exception:
                sib = None
            finally:
                os.unlink(p2)
            if record and sib is not None:
                rep.count("sibling-document-loaded-first")
        try:
            try:
                # (now and then under the name of a shipped benchmark: a name is only a name)
                nm = [None, None, "tiny", "medium", "small-linear"][(len(doc["subnets"]) + len(doc["exploits"]) + case.get("rotate", 0)) % 5]
                _LOADS[0] += 1
                if _LOADS[0] % 3 == 0:
                    # the documented class API: one long-lived ScenarioLoader object loading file after file
                    from nasim.scenarios.loader import ScenarioLoader
                    if _LOADER[0] is None:
                        _LOADER[0] = ScenarioLoader()
                    scn = _LOADER[0].load(path, name=nm) if nm else _LOADER[0].load(path)
                    if record:
                        rep.count("loaded-by-a-reused-ScenarioLoader")
                else:
                    scn = nasim.load_scenario(path, name=nm) if nm else nasim.load_scenario(path)
            except Exception as e:
                raise Failure("C17:rejected", f"valid document rejected: {type(e).__name__}: {str(e)[:300]}",
                              bucket=f"C17:rejected:{type(e).__name__}:{_norm_msg(str(e))}")
            spec = compare(doc, scn)
            feats = features(doc)
            if feats & {"host-deny-list", "exploit-prob-1", "empty-escalations", "negative-value", "no-step-limit", "os-none"}:
                rep.nontriv(spec.fingerprint())
            if record:
                for f in feats:
                    rep.count("feature:" + f)
                rep.count("source:" + src["kind"])
            if feats & {"host-deny-list", "asymmetric-rule"} or sib is not None:
                # C02-oracle walk (near-miss ops first) on the loaded environment
                spec2 = M.Spec.from_doc({k: v for k, v in doc.items() if not k.startswith("_")})
                ops = case["ops"] or []
                behaviour(doc, spec2, path, ops, rep, record)
                if record:
                    rep.count("behaviour-walks")
            if record and len(rep.samples) < rep.max_samples:
                rep.sample(dict(source=src["kind"], features=sorted(feats), subnets=doc["subnets"],
                                exploits=doc["exploits"], spelling=case.get("spelling", 0), flow=src.get("flow")))
        finally:
            if tmp and os.path.exists(tmp):
                os.unlink(tmp)
    except Failure as f:
        failed.add(f.bucket)
        if record:
            rep.fail(f.bucket, f.detail, case)
    except Exception as e:
        inside, where = engine.from_nasim(sys.exc_info()[2])
        if not inside:
            raise
        failed.add(f"C17:exception:{type(e).__name__}@{where}")
        if record:
            rep.fail(f"C17:exception:{type(e).__name__}@{where}", f"{type(e).__name__}: {e} at {where}", case)
    return failed


class _Runner:
    def __init__(self, rep):
        self.rep = rep

    def run(self, case, record=True):
        return run_case(case, self.rep, record)


def _shard(shard, seed, tier, n_cases):
    rep = Reporter(PID, tier, RULE)
    near = st.tuples(st.just("n"), st.integers(0, 2), engine.BIG, engine.SIDE, engine.KS)
    prog = st.tuples(st.just("p"), engine.BIG, engine.SIDE, engine.KS)
    strat = st.fixed_dictionaries({
        "source": st.builds(lambda d, fl: {"kind": "doc", "doc": d, "flow": fl},
                            docs.documents(extras=False, deny_rich=True), st.sampled_from([None, False, True])),
        "spelling": st.integers(0, 2),
        "rotate": st.sampled_from([0, 0, 3, 7, 11]),
        "ops": st.lists(engine.weighted([
            (6, near), (4, prog), (2, st.tuples(st.just("d"), engine.BIG, engine.SIDE, engine.KS)),
            (2, st.tuples(st.just("s"), st.integers(0, 23), engine.BIG, engine.SIDE, engine.KS)),
            (2, st.tuples(st.just("g"), st.integers(0, 23), engine.BIG, engine.SIDE, engine.KS)),
            (1, st.just(("x",))), (1, st.tuples(st.just("v"), st.integers(0, 59)))]), min_size=8, max_size=40),
        "modes": st.just({}),
        "sibling": st.sampled_from([False, False, True]),
    })
    engine.drive(_Runner(rep), strat, n_cases, seed)
    return rep


def main(tier, replay=None):
    rep = Reporter(PID, tier, RULE, assumptions=[
        "valid documents are restricted to what the tutorial promises: canonical '(a, b)' key spelling, symmetric self-connected topology, >= 1 public subnet, >= 1 exploit, costs > 0, sensitive values > 0, rules for exactly the connected ordered pairs, names never 'none'",
        "allow-/deny-lists are compared as sets (plus: no duplicates)"])
    if replay:
        j, case = engine.load_replay(replay)
        failed = run_case(engine.case_from_json(case), rep)
        print(f"replay {replay}: failing buckets {sorted(failed)}")
        for b in rep.buckets.values():
            print("  ", str(b["detail"])[:600])
        if failed:
            print(f"VIOLATION property={PID} replay={replay}")
            return 1
        return 0
    for name in sources.shipped_names():
        run_case(dict(source={"kind": "shipped", "name": name}, modes={},
                      ops=[("n", i % 3, i * 13, "lo", i) if i % 2 else ("p", i * 7, "lo", i) for i in range(40)]), rep)
    nshards = 16 if tier == "thorough" else 8
    total = 16 * 1500 if tier == "thorough" else 800
    for part in engine.run_shards(_shard, nshards, common.verif_seed(), tier=tier, n_cases=total // nshards):
        rep.merge(part)
    docs.cleanup()
    return rep.finish()
