"""C18 Malformed scenario files are rejected."""
import copy
import os
import sys

import yaml
import hypothesis
from hypothesis import HealthCheck, Phase, given, settings, strategies as st

from . import common, docs, engine, sources
from .common import Failure, Reporter

PID = "C18"
RULE = ("cases = (single-rule mutator from a catalogue with >= 1 mutator per clause of the statement) x (valid base document: the nine "
        "shipped files and random documents that themselves load). A mutant keeps the base valid except for the targeted rule; "
        "load_scenario must raise (any exception type); returning a scenario is the violation. Thorough tier additionally applies "
        "pairs of mutators. Non-trivial = every applicable (rule, base) pair; distinct by (rule, base fingerprint).")

REQ = ["subnets", "topology", "sensitive_hosts", "os", "services", "processes", "exploits",
       "privilege_escalation", "service_scan_cost", "os_scan_cost", "subnet_scan_cost",
       "process_scan_cost", "host_configurations", "firewall"]


def unknown_names(y, sec, none_is_valid=False):
    """(tag, name) pairs: strings that are NOT an entry of y[sec] - a plain unknown word, the spellings of
    'none' (only OS-agnostic exploits / escalations may say that), an entry of another list, another
    capitalisation or padding of a valid entry, the empty string"""
    have = set(y[sec])
    out = [("", "nonexistent")]
    if not none_is_valid:
        out += [("-None", "None"), ("-none", "none"), ("-NONE", "NONE")]
    other = [n for k in ("os", "services", "processes") if k != sec for n in y[k]]
    v0 = y[sec][0]
    out += [("-other-list", other[0] if other else "x"), ("-other-list-last", other[-1] if other else "y"),
            ("-upper", str(v0).upper()), ("-capitalised", str(v0).capitalize() if str(v0).capitalize() != v0 else str(v0).swapcase()),
            ("-padded", str(v0) + " "), ("-prefix", str(v0)[:-1] if len(str(v0)) > 1 else str(v0) + "x"), ("-empty", "")]
    seen = set()
    for tag, n in out:
        if n in have or n in seen or (none_is_valid and str(n).lower() == "none"):
            continue
        seen.add(n)
        yield tag, n


def mutations(y, pos=0):
    """y: YAML object of a VALID document (string keys).  Yields (rule, mutant);
    every mutant breaks exactly the named documented rule."""
    def m():
        return copy.deepcopy(y)

    def first(seq):
        """the entry the fault is placed at: the first one for pos == 0, any other for other pos"""
        return seq[pos % len(seq)]

    def last(seq):
        return seq[(-1 - pos) % len(seq)]
    for sec in REQ:
        d = m(); del d[sec]; yield f"missing-section:{sec}", d
    d = m(); d["bogus_section"] = 1; yield "unknown-section", d
    for sec, badv in [("subnets", {"a": 1}), ("topology", "x"), ("sensitive_hosts", [1]), ("os", "linux"),
                      ("services", {"ssh": 1}), ("processes", 3), ("exploits", []), ("privilege_escalation", []),
                      ("service_scan_cost", "1"), ("os_scan_cost", [1]), ("host_configurations", []), ("firewall", []),
                      ("step_limit", 2.5), ("step_limit", "10")]:
        d = m(); d[sec] = badv; yield f"mistyped-section:{sec}:{type(badv).__name__}", d
    d = m(); d["subnets"] = []; yield "subnets-empty", d
    d = m(); d["subnets"][pos % len(d["subnets"])] = 0; yield "subnets-zero", d
    d = m(); d["subnets"][(-1 - pos) % len(d["subnets"])] = -1; yield "subnets-negative", d
    d = m(); d["topology"] = d["topology"][:-1]; yield "topology-missing-row", d
    d = m(); d["topology"].append(list(d["topology"][0])); yield "topology-extra-row", d
    d = m(); r_ = pos % len(d["topology"]); d["topology"][r_] = d["topology"][r_][:-1]; yield "topology-short-row", d
    d = m(); r_ = (-1 - pos) % len(d["topology"]); d["topology"][r_] = d["topology"][r_] + [0]; yield "topology-long-row", d
    d = m(); r_ = pos % len(d["topology"]); d["topology"][r_][r_] = 2; yield "topology-entry-2", d
    d = m(); r_ = (1 + pos) % len(d["topology"]); d["topology"][r_][r_] = -1; yield "topology-entry-negative", d
    d = m(); r_ = (-1 - pos) % len(d["topology"]); d["topology"][r_][(r_ + pos) % len(d["topology"])] = 0.5; yield "topology-entry-fraction", d
    for sec in ("os", "services", "processes"):
        d = m(); d[sec] = []; yield f"{sec}-empty", d
        d = m(); d[sec] = d[sec] + [first(d[sec])]; yield f"{sec}-duplicate", d
        d = m(); d[sec] = [d[sec][0]] + d[sec]; yield f"{sec}-duplicate-adjacent", d
        d = m(); d[sec] = d[sec] + [d[sec][-1]]; yield f"{sec}-duplicate-last", d
    sh = list(y["sensitive_hosts"])
    nsub = len(y["subnets"])
    d = m(); v = d["sensitive_hosts"].pop(first(sh)); d["sensitive_hosts"]["(99, 0)"] = v; yield "sensitive-bad-subnet", d
    d = m(); v = d["sensitive_hosts"].pop(first(sh)); d["sensitive_hosts"]["(1, 99)"] = v; yield "sensitive-bad-host", d
    d = m(); v = d["sensitive_hosts"].pop(first(sh)); d["sensitive_hosts"]["(0, 0)"] = v; yield "sensitive-internet", d
    d = m(); v = d["sensitive_hosts"].pop(first(sh)); d["sensitive_hosts"][f"({nsub + 1}, 0)"] = v; yield "sensitive-subnet-off-by-one", d
    d = m(); v = d["sensitive_hosts"].pop(first(sh)); d["sensitive_hosts"][f"(1, {y['subnets'][0]})"] = v; yield "sensitive-host-off-by-one", d
    d = m(); v = d["sensitive_hosts"].pop(first(sh)); d["sensitive_hosts"]["(1, -1)"] = v; yield "sensitive-negative-host", d
    # a valid address followed by something else is not an address
    for tag, junk in (("extra-paren", ")"), ("second-address", ", (1, 0)"), ("range", "-(1, 9)"), ("third-number", ", 0"), ("word", " x")):
        bad = first(sh) + junk if tag != "third-number" else first(sh).rstrip(")") + ", 0)"
        d = m(); v = d["sensitive_hosts"].pop(first(sh)); d["sensitive_hosts"][bad] = v; yield f"sensitive-address-trailing-{tag}", d
    alt = first(sh).replace(", ", ",")
    if alt != first(sh):
        d = m(); d["sensitive_hosts"][alt] = d["sensitive_hosts"][first(sh)]; yield "sensitive-duplicate", d
    d = m(); d["sensitive_hosts"][first(sh)] = 0; yield "sensitive-value-zero", d
    d = m(); d["sensitive_hosts"][last(sh)] = float("nan"); yield "sensitive-value-nan", d
    d = m(); d["sensitive_hosts"][first(sh)] = float("-inf"); yield "sensitive-value-minus-inf", d
    d = m(); d["sensitive_hosts"][last(sh)] = -5; yield "sensitive-value-negative", d
    for sec, fields, tgt in (("exploits", ["service", "os", "prob", "cost", "access"], "service"),
                             ("privilege_escalation", ["process", "os", "prob", "cost", "access"], "process")):
        if not y[sec]:
            continue
        names = list(y[sec])
        n0, n1 = first(names), last(names)
        for f in fields:
            d = m(); del d[sec][n0][f]; yield f"{sec}-missing-{f}", d
        for tag, bad in unknown_names(y, tgt + ("s" if tgt == "service" else "es")):
            d = m(); d[sec][n1][tgt] = bad; yield f"{sec}-unknown-{tgt}{tag}", d
        for tag, bad in unknown_names(y, "os", none_is_valid=True):
            d = m(); d[sec][n0]["os"] = bad; yield f"{sec}-unknown-os{tag}", d
        d = m(); d[sec][n1]["prob"] = 1.5; yield f"{sec}-prob-above-1", d
        d = m(); d[sec][n0]["prob"] = 1.0000001; yield f"{sec}-prob-just-above-1", d
        d = m(); d[sec][n0]["prob"] = -0.1; yield f"{sec}-prob-negative", d
        for tag, bad in (("nan", float("nan")), ("inf", float("inf")), ("minus-inf", float("-inf"))):
            d = m(); d[sec][n1]["prob"] = bad; yield f"{sec}-prob-{tag}", d
        d = m(); d[sec][n0]["cost"] = float("nan"); yield f"{sec}-cost-nan", d
        d = m(); d[sec][n1]["cost"] = float("-inf"); yield f"{sec}-cost-minus-inf", d
        d = m(); d[sec][n1]["cost"] = 0; yield f"{sec}-cost-zero", d
        d = m(); d[sec][n0]["cost"] = -1; yield f"{sec}-cost-negative", d
        d = m(); d[sec][n0]["access"] = "admin"; yield f"{sec}-access-unknown-name", d
        d = m(); d[sec][n1]["access"] = 0; yield f"{sec}-access-0", d
        d = m(); d[sec][n0]["access"] = 3; yield f"{sec}-access-3", d
        d = m(); d[sec][n0] = [1, 2]; yield f"{sec}-definition-without-fields", d
    for sc in ("service_scan_cost", "os_scan_cost", "subnet_scan_cost", "process_scan_cost"):
        d = m(); d[sc] = -1; yield f"{sc}-negative", d
        d = m(); d[sc] = -0.5; yield f"{sc}-negative-fraction", d
        d = m(); d[sc] = float("-inf"); yield f"{sc}-minus-inf", d
    hc = list(y["host_configurations"])
    h0, hl = first(hc), last(hc)
    d = m(); del d["host_configurations"][hl]; yield "host-missing", d
    d = m(); d["host_configurations"]["(1, 77)"] = copy.deepcopy(d["host_configurations"][h0]); yield "host-superfluous", d
    d = m(); c = d["host_configurations"].pop(hl); d["host_configurations"]["(1, 77)"] = c; yield "host-wrong-address", d
    alt_h = h0.replace(", ", ",")
    if alt_h != h0 and hl != h0:
        # one host missing, another one configured twice under two spellings of its address (count unchanged)
        d = m(); c = d["host_configurations"].pop(hl); d["host_configurations"][alt_h] = c; yield "host-duplicate-by-spelling", d
        alt_l = hl.replace(", ", ",")
        d = m(); c = d["host_configurations"].pop(h0); d["host_configurations"][alt_l] = c; yield "host-duplicate-by-spelling-last", d
    for f in ("os", "services", "processes"):
        d = m(); del d["host_configurations"][h0][f]; yield f"host-missing-{f}", d
    for tag, bad in unknown_names(y, "services"):
        d = m(); d["host_configurations"][hl]["services"].append(bad); yield f"host-unknown-service{tag}", d
    for tag, bad in unknown_names(y, "processes"):
        d = m(); d["host_configurations"][h0]["processes"].append(bad); yield f"host-unknown-process{tag}", d
    for tag, bad in unknown_names(y, "os"):
        d = m(); d["host_configurations"][hl]["os"] = bad; yield f"host-unknown-os{tag}", d
    d = m(); d["host_configurations"][h0]["os"] = None; yield "host-os-null", d
    d = m(); s = d["host_configurations"][h0]["services"]; s.append(s[0]); yield "host-duplicate-service", d
    d = m(); s = d["host_configurations"][hl]["services"]; s.insert(0, s[0]); yield "host-duplicate-service-adjacent", d
    for hx in hc:
        if y["host_configurations"][hx]["processes"]:
            d = m(); s = d["host_configurations"][hx]["processes"]; s.append(s[0]); yield "host-duplicate-process", d
            break
    sv = first(y["services"])
    d = m(); d["host_configurations"][h0]["firewall"] = [sv]; yield "hostfw-not-a-dict", d
    d = m(); d["host_configurations"][hl]["firewall"] = {"(99, 0)": []}; yield "hostfw-bad-subnet", d
    d = m(); d["host_configurations"][h0]["firewall"] = {"(1, 99)": [sv]}; yield "hostfw-bad-host", d
    d = m(); d["host_configurations"][h0]["firewall"] = {"garbage": []}; yield "hostfw-garbage-address", d
    for tag, junk in (("extra-paren", ")"), ("second-address", ", (1, 0)"), ("range", "-(1, 9)"), ("word", " x")):
        d = m(); d["host_configurations"][h0]["firewall"] = {hl + junk: [sv]}; yield f"hostfw-address-trailing-{tag}", d
        d = m(); c = d["host_configurations"].pop(hl); d["host_configurations"][hl + junk] = c; yield f"host-address-trailing-{tag}", d
    d = m(); d["host_configurations"][hl]["firewall"] = {"(0, 0)": [sv]}; yield "hostfw-internet-address", d
    d = m(); d["host_configurations"][h0]["firewall"] = {f"(1, {y['subnets'][0]})": [sv]}; yield "hostfw-host-off-by-one", d
    d = m(); d["host_configurations"][h0]["firewall"] = {f"({nsub + 1}, 0)": [sv]}; yield "hostfw-subnet-off-by-one", d
    d = m(); d["host_configurations"][hl]["firewall"] = {"(1, -1)": [sv]}; yield "hostfw-negative-host", d
    for tag, bad in unknown_names(y, "services"):
        d = m(); d["host_configurations"][hl]["firewall"] = {h0: [bad]}; yield f"hostfw-unknown-service{tag}", d
    d = m(); d["host_configurations"][h0]["firewall"] = {hl: sv}; yield "hostfw-not-a-list", d
    d = m(); d["host_configurations"][h0]["firewall"] = {h0: [sv, sv]}; yield "hostfw-duplicate-service", d
    if len(y["services"]) > 1:
        s1 = y["services"][1]
        d = m(); d["host_configurations"][h0]["firewall"] = {hl: [sv, s1, sv]}; yield "hostfw-duplicate-service-apart", d
        d = m(); d["host_configurations"][hl]["firewall"] = {h0: [s1, sv, s1]}; yield "hostfw-duplicate-second-service-apart", d
    # same faults placed after a valid entry (validation must not stop at the first entry)
    d = m(); d["host_configurations"][h0]["firewall"] = {h0: [sv], "(99, 0)": []}; yield "hostfw-second-entry-bad-address", d
    d = m(); d["host_configurations"][h0]["firewall"] = {h0: [sv], hl: ["nonexistent"]}; yield "hostfw-second-entry-unknown-service", d
    d = m(); d["host_configurations"][h0]["value"] = "high"; yield "host-value-not-a-number", d
    d = m(); d["host_configurations"][hl]["value"] = [1]; yield "host-value-list", d
    for s_ in sh:
        if s_ in y["host_configurations"]:
            d = m(); d["host_configurations"][s_]["value"] = d["sensitive_hosts"][s_] + 7
            yield "host-value-contradicts-sensitive", d
            d = m(); d["host_configurations"][s_]["value"] = d["sensitive_hosts"][s_] + 7
            d["host_configurations"][s_]["firewall"] = {h0: [sv]}
            yield "host-value-contradicts-sensitive-with-host-firewall", d
            d = m(); d["host_configurations"][s_]["value"] = 0; yield "host-value-zero-contradicts-sensitive", d
            d = m(); d["host_configurations"][s_]["value"] = 0.0; yield "host-value-zero-float-contradicts-sensitive", d
            d = m(); d["host_configurations"][s_]["value"] = -d["sensitive_hosts"][s_]; yield "host-value-negated-contradicts-sensitive", d
            d = m(); d["host_configurations"][s_]["value"] = d["sensitive_hosts"][s_] * 1.01; yield "host-value-one-percent-off-sensitive", d
            break
    d = m(); d["host_configurations"][h0] = [1, 2, 3]; yield "host-configuration-not-a-dict", d
    fw = list(y["firewall"])
    if fw:
        f0, fl = first(fw), last(fw)
        if len(set(__import__("ast").literal_eval(f0))) == 2:
            d = m(); del d["firewall"][f0]; yield "firewall-missing-rule", d
        # (only a rule the topology requires: a misspelt key of an optional rule inside one subnet leaves a valid file)
        import ast
        needed = [k for k in fw if len(set(ast.literal_eval(k))) == 2]
        for tag, junk in (("extra-paren", ")"), ("second-pair", ", (0, 1)"), ("word", " x")):
            if needed:
                d = m(); v = d["firewall"].pop(last(needed)); d["firewall"][last(needed) + junk] = v; yield f"firewall-pair-trailing-{tag}", d
        if len(set(__import__("ast").literal_eval(fl))) == 2:
            d = m(); del d["firewall"][fl]; yield "firewall-missing-last-rule", d
        d = m(); d["firewall"][f0] = sv; yield "firewall-rule-not-a-list", d
        d = m(); d["firewall"][fl] = None; yield "firewall-rule-none", d
        d = m(); d["firewall"][f0] = [sv, sv]; yield "firewall-duplicate-service", d
        if len(y["services"]) > 1:
            s1 = y["services"][1]
            d = m(); d["firewall"][fl] = [sv, s1, sv]; yield "firewall-duplicate-service-apart", d
            d = m(); d["firewall"][f0] = [s1, sv, s1, sv] if len(y["services"]) > 1 else [sv, sv]; yield "firewall-two-duplicates-apart", d
            d = m(); d["firewall"][f0] = list(y["services"]) + [y["services"][-1]]; yield "firewall-duplicate-last-of-full-list", d
        for tag, bad in unknown_names(y, "services"):
            d = m(); d["firewall"][fl] = [sv, bad]; yield f"firewall-unknown-service{tag}", d
    d = m(); d["step_limit"] = 0; yield "step-limit-zero", d
    d = m(); d["step_limit"] = -3; yield "step-limit-negative", d


_N = [0]


def try_load(yobj):
    import nasim
    _N[0] += 1
    path = os.path.join(docs.tmpdir(), f"c18_{os.getpid()}_{_N[0]}.yaml")
    with open(path, "w") as f:
        yaml.safe_dump(yobj, f, sort_keys=False)
    try:
        nasim.load_scenario(path)
        return None
    except Exception as e:
        return type(e).__name__
    finally:
        os.unlink(path)


def rule_class(rule):
    return rule.split(":")[0].split("-")[0]


def rule_section(rule):
    """top-level section a mutator edits (pairs are only formed across sections:
    two edits of the same section can cancel, e.g. an extra and a missing topology row)"""
    if ":" in rule:
        return rule.split(":")[1]
    head = rule.split("-")[0]
    if head in ("host", "hostfw"):
        return "host_configurations"
    if head == "sensitive":
        return "sensitive_hosts"
    if head == "step":
        return "step_limit"
    if head == "unknown":
        return "bogus_section"
    return head


def run_base(yobj, tag, rep, pairs=0, record=True, pos=0):
    """returns set of failing buckets"""
    failed = set()
    base_fp = common.stable_hash(yobj)
    r = try_load(copy.deepcopy(yobj))
    if r is not None:
        if record:
            rep.count("base-rejected(C17)")
        return failed
    if record:
        rep.count("bases")
        rep.count("base:" + tag)
    muts = list(mutations(yobj, pos))
    for rule, d in muts:
        if record:
            rep.evaluated()
            rep.nontriv(rule, base_fp)
            rep.count("rule-class:" + rule_class(rule))
        if try_load(d) is None:
            failed.add(f"C18:accepted:{rule}")
            if record:
                rep.fail(f"C18:accepted:{rule}", f"malformed document (rule '{rule}') was accepted by load_scenario", dict(rule=rule, document=d))
    if record:
        rep.extra["max_rules_per_base"] = max(rep.extra.get("max_rules_per_base", 0), len(muts))
    # pairs of mutators: apply rule B's change on top of rule A's mutant where it still applies
    if pairs:
        import itertools
        rs = __import__("numpy").random.RandomState(int(base_fp, 16) % (2 ** 31))
        for _ in range(pairs):
            i, j = rs.randint(0, len(muts), 2)
            ra, da = muts[i]
            try:
                second = dict(mutations(da))
            except Exception:
                continue
            rb = muts[j][0]
            if rb not in second or rb == ra or rule_section(ra) == rule_section(rb):
                continue
            if record:
                rep.evaluated()
                rep.nontriv(ra, rb, base_fp)
                rep.count("rule-pairs")
            if try_load(second[rb]) is None:
                failed.add(f"C18:accepted-pair:{ra}+{rb}")
                if record:
                    rep.fail(f"C18:accepted-pair:{ra}+{rb}", f"document violating '{ra}' and '{rb}' was accepted", dict(rule=[ra, rb], document=second[rb]))
    if record and len(rep.samples) < rep.max_samples:
        rep.sample(dict(base=tag, n_mutants=len(muts), example_rules=[r for r, _ in muts[::9]]))
    return failed


def _shard(shard, seed, tier, n_cases):
    rep = Reporter(PID, tier, RULE)

    @hypothesis.seed(seed)
    @settings(max_examples=n_cases, deadline=None, database=None, phases=[Phase.generate], suppress_health_check=list(HealthCheck))
    @given(doc=docs.documents(extras=False), pos=st.sampled_from([0, 0, 1, 2, 3, 5, 8, 13]))
    def t(doc, pos):
        run_base(docs.to_yaml_obj(doc), "random", rep, pairs=40 if tier == "thorough" else 0, pos=pos)
        if pos:
            rep.count("fault-position-other-than-first/last")
    t()
    return rep


def _shipped_shard(shard, seed, tier, names):
    rep = Reporter(PID, tier, RULE)
    name = names[shard]
    with open(sources.shipped_path(name)) as f:
        y = yaml.safe_load(f)
    run_base(y, "shipped:" + name, rep, pairs=60 if tier == "thorough" else 10)
    for pos in ((1, 2, 3, 7) if tier == "thorough" else (1 + shard % 3,)):
        run_base(y, "shipped:" + name, rep, pos=pos)
    return rep


def measure_loader_coverage(rep):
    """statement coverage of loader.py reached by the mutants of the small shipped bases (measured, thorough tier)"""
    loader_path = os.path.join(common.REPO, "nasim", "scenarios", "loader.py")
    try:
        import coverage
        cov = coverage.Coverage(include=[loader_path], branch=True, data_file=None)
        cov.start()
        scratch = Reporter(PID, "thorough", RULE)
        for name in ("tiny", "tiny-small", "small-honeypot"):
            with open(sources.shipped_path(name)) as f:
                run_base(yaml.safe_load(f), "coverage:" + name, scratch, record=False)
        cov.stop()
        _, statements, _, missing, _ = cov.analysis2(loader_path)
        rep.extra["loader_statement_coverage"] = (
            f"{len(statements) - len(missing)}/{len(statements)} statements of nasim/scenarios/loader.py executed by the "
            f"mutants of tiny, tiny-small, small-honeypot (lines never executed: {missing[:30]}; lines 1-66 are module-level "
            "constants imported before the measurement starts)")
    except Exception as e:
        rep.extra["loader_statement_coverage"] = f"not measured: {e}"


def main(tier, replay=None):
    rep = Reporter(PID, tier, RULE, level="fault_enumeration", assumptions=[
        "only rule violations named in the property statement are in the catalogue; any exception type counts as rejection",
        "base documents that do not load are not used (that is C17's failure)"])
    if replay:
        import json
        j = json.load(open(replay))
        r = try_load(j["case"]["document"])
        print(f"replay {replay}: rule {j['case']['rule']} ->", "ACCEPTED" if r is None else f"rejected ({r})")
        if r is None:
            print(f"VIOLATION property={PID} replay={replay}")
            return 1
        return 0
    names = sources.shipped_names()
    for part in engine.run_shards(_shipped_shard, len(names), common.verif_seed(), tier=tier, names=names):
        rep.merge(part)
    if tier == "thorough":
        measure_loader_coverage(rep)
    nshards = 16 if tier == "thorough" else 8
    total = 16 * 40 if tier == "thorough" else 64
    for part in engine.run_shards(_shard, nshards, common.verif_seed(), tier=tier, n_cases=total // nshards):
        rep.merge(part)
    docs.cleanup()
    return rep.finish()
