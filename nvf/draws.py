"""Owning NumPy's global random stream without hooks.

seed table: s -> first double produced by RandomState(s).  np.random.rand(),
random(), random_sample(), uniform(0,1) all return that same double after
np.random.seed(s), so the harness can place the draw strictly below or above
an action's probability whichever of them the code calls.
"""
import bisect
import numpy as np

_TABLE = None      # sorted list of (draw, seed)
_N = 0


def _extend(n):
    global _TABLE, _N
    if _TABLE is None:
        _TABLE = []
    if n <= _N:
        return
    rs = np.random.RandomState()
    new = []
    for s in range(_N, n):
        rs.seed(s)
        new.append((float(rs.random_sample()), s))
    _TABLE = sorted(_TABLE + new)
    _N = n


def seed_for(prob, side, k=0):
    """A seed whose first double is strictly < prob (side 'lo') or > prob
    ('hi').  k varies the choice.  Returns (seed, draw) or None if no such
    seed exists in a table of 200k seeds (e.g. prob == 0 and side 'lo')."""
    for n in (4096, 32768, 200000):
        _extend(n)
        draws = _TABLE
        if side == "lo":
            i = bisect.bisect_left(draws, (prob, -1))     # draws[:i] < prob
            if i > 0:
                d, s = draws[k % i]
                if d < prob:
                    return s, d
        else:
            i = bisect.bisect_right(draws, (prob, 1 << 62))  # draws[i:] > prob
            if i < len(draws):
                d, s = draws[i + k % (len(draws) - i)]
                if d > prob:
                    return s, d
    return None


def state_sig():
    st = np.random.get_state()
    return (st[1].tobytes(), int(st[2]))


def draws_consumed(seed, limit=8):
    """How many doubles the global stream has produced since np.random.seed(seed)
    (None if the state matches no k <= limit, e.g. other distributions used)."""
    cur = state_sig()
    rs = np.random.RandomState(seed)
    for k in range(limit + 1):
        st = rs.get_state()
        if (st[1].tobytes(), int(st[2])) == cur:
            return k
        rs.random_sample()
    return None


def selftest():
    """The draw must be steerable: after seeding, np.random.rand() equals the
    table value."""
    s, d = seed_for(0.5, "lo", 3)
    np.random.seed(s)
    ok = float(np.random.rand()) == d
    s2, d2 = seed_for(0.5, "hi", 5)
    np.random.seed(s2)
    ok = ok and float(np.random.random_sample()) == d2 and d < 0.5 < d2
    return ok


def dynamics_controlled(repeats=12):
    """Is the chance outcome of a step a function of np.random.seed()?  The same
    seed is installed `repeats` times before the same stochastic action (prob
    0.5) from the same state: if the outcome varies, the dynamics do not draw
    from the seeded global generator and draw-steering checks are inconclusive
    (exit 2) - they must not report violations from an uncontrolled draw.  A
    wrong but deterministic use of the draw (e.g. an inverted comparison) stays
    'controlled' and is left to the oracles."""
    from . import sources
    from .check_c20 import STAR
    scn = sources.scenario_from_doc(STAR)
    env = sources.make_env(scn)
    act = next(a for a in env.action_space.actions if a.is_exploit() and tuple(a.target) == (1, 0))
    for side in ("lo", "hi"):
        seed, _ = seed_for(0.5, side, 1)
        outs = set()
        for _ in range(repeats):
            np.random.seed(seed)
            ns, o, r, d, info = env.generative_step(env.current_state, act)
            outs.add(bool(info["success"]))
        if len(outs) > 1:
            return False
    return True
