"""C20 The advertised score upper bound really bounds goal-reaching episodes."""
import sys

import numpy as np
import hypothesis
from hypothesis import HealthCheck, Phase, given, settings, strategies as st

from . import common, docs, draws, engine, model as M, sources, walk
from .common import Failure, Reporter
from .check_c16 import model_plan, prune_plan

PID = "C20"
RULE = ("cases = scenarios in the property's domain (every action cost >= 1, non-sensitive host values <= 1, discovery values >= 0): "
        "constructively attackable random documents with <= 6 hosts (random trees / stars / chains / extra edges, 1-2 public "
        "subnets, 1-3 sensitive hosts incl. several per subnet and in leaves of a common parent, biased to the tight corner cost 1 "
        "/ value 1 / ROOT exploit / discovery 0), plus shipped and generated scenarios inside the domain. Oracles: (i) exact maximum "
        "total reward over goal-reaching episodes by memoised search over the reference model's monotone state graph, arg-max "
        "episode replayed on the REAL environment with forced draws: violation iff the real episode reaches the goal with total > "
        "get_score_upper_bound() + 1e-6; (ii) goal-reaching episode minimising the number of compromised hosts, replayed likewise: "
        "violation iff get_minimum_hops() > number of compromised hosts in the real final state. Large scenarios use pruned greedy "
        "plans as witnesses. Non-trivial = topology whose sensitive subnets do not lie on one shortest chain from the internet "
        "(>= 2 sensitive subnets), or a branching minimal tree; distinct by scenario fingerprint.")
STATE_CAP = 6000
sys.setrecursionlimit(100000)


def in_domain(spec):
    if any(e["cost"] < 1 for e in spec.exploits.values()) or any(e["cost"] < 1 for e in spec.privescs.values()):
        return False
    if any(c < 1 for c in spec.scan_cost.values()):
        return False
    for a, h in spec.hosts.items():
        if a not in spec.sensitive and h["value"] > 1:
            return False
        if h["dvalue"] < 0:
            return False
    return True


@st.composite
def c20_docs(draw):
    style = draw(st.integers(0, 2))
    if style == 0:
        doc = draw(docs.documents(max_subnets=4, max_size=2, max_hosts=6, extras=False, wide=0))
    else:
        # permissive single-service scenario on a random tree (+ extra edges): isolates the topology
        many = draw(st.integers(0, 11)) == 0          # now and then many subnets / many sensitive hosts (10+ terminals)
        n = draw(st.integers(9, 12)) if many else draw(st.integers(2, 6))
        sizes = [1] * n
        if draw(st.booleans()):
            sizes[draw(st.integers(0, n - 1))] = 2
        N = n + 1
        topo = [[0] * N for _ in range(N)]
        for i in range(N):
            topo[i][i] = 1
        topo[0][1] = topo[1][0] = 1
        template = draw(st.sampled_from(["random", "random", "branches", "branches", "star", "chain"]))
        for i in range(2, N):
            if template == "branches":
                p = 1 if i <= 3 else i - 2            # 1-2-4-6.., 1-3-5-7..: branches of equal depth behind the public subnet
            elif template == "star":
                p = 1
            elif template == "chain":
                p = i - 1
            else:
                lo = 0 if draw(st.integers(0, 5)) == 0 else 1
                p = draw(st.integers(lo, i - 1))
            topo[i][p] = topo[p][i] = 1
        for i in range(1, N):
            for j in range(i + 1, N):
                if draw(st.integers(0, 6)) == 0:
                    topo[i][j] = topo[j][i] = 1
        addrs = [(s + 1, h) for s in range(n) for h in range(sizes[s])]
        root = draw(st.booleans())
        exploits = {"e": dict(service="ssh", os="none", prob=draw(st.sampled_from([1.0, 0.5])), cost=1,
                              access="root" if root else "user")}
        pes = {"pe": dict(process="tomcat", os="none", prob=1.0, cost=1, access="root")}
        hc = {a: dict(os="linux", services=["ssh"], processes=["tomcat"], value=1) for a in addrs}
        k = draw(st.integers(1, min(3, len(addrs))))
        if many:
            k = draw(st.integers(7, len(addrs) - 1))
            sens_addrs = draw(st.lists(st.sampled_from(addrs[1:]), min_size=k, max_size=k, unique=True))
        elif template in ("branches", "star") and draw(st.booleans()):
            # sensitive hosts in the leaves
            leaves = [a for a in addrs if sum(topo[a[0]][1:]) == 2 and a[0] != 1] or addrs
            k = min(k + 1, len(leaves), 3)
            sens_addrs = draw(st.lists(st.sampled_from(leaves), min_size=k, max_size=k, unique=True))
        else:
            sens_addrs = draw(st.lists(st.sampled_from(addrs), min_size=k, max_size=k, unique=True))
        sens = {a: draw(st.sampled_from([100, 10, 1])) for a in sens_addrs}
        for a in sens_addrs:
            del hc[a]["value"]
        fw = {(i, j): ["ssh"] for i in range(N) for j in range(N) if i != j and topo[i][j]}
        doc = dict(subnets=sizes, topology=topo, sensitive_hosts=sens, os=["linux"], services=["ssh"],
                   processes=["tomcat"], exploits=exploits, privilege_escalation=pes, service_scan_cost=1,
                   os_scan_cost=1, subnet_scan_cost=1, process_scan_cost=1, host_configurations=hc, firewall=fw)
    tight = draw(st.integers(0, 2)) > 0
    for e in list(doc["exploits"].values()) + list(doc["privilege_escalation"].values()):
        e["cost"] = 1 if tight else draw(st.sampled_from([1, 1, 2, 1.5]))
        if e["prob"] in (0, 0.0):
            e["prob"] = 0.5
    for k in ("service_scan_cost", "os_scan_cost", "subnet_scan_cost", "process_scan_cost"):
        doc[k] = 1 if tight else draw(st.sampled_from([1, 1, 2]))
    for a, cfg in doc["host_configurations"].items():
        if a not in doc["sensitive_hosts"]:
            cfg["value"] = 1 if tight else draw(st.sampled_from([1, 1, 0, -1, 0.5]))
    doc["_discovery_values"] = {a: (0 if tight else draw(st.sampled_from([0, 0, 1, 2])))
                                for a in doc["host_configurations"]}
    doc.pop("step_limit", None)
    hc = doc["host_configurations"]
    plain = [a for a in hc if a not in doc["sensitive_hosts"]]
    if plain and draw(st.integers(0, 5)) == 0:
        # a sensitive and an ordinary host with one and the same configuration (no value of their own), written
        # once in the file and referred to through a YAML alias
        s_ = draw(st.sampled_from(sorted(doc["sensitive_hosts"])))
        t_ = draw(st.sampled_from(plain))
        cfg = {k: (list(v) if isinstance(v, list) else v) for k, v in hc[s_].items() if k not in ("value", "firewall")}
        hc[s_] = dict(cfg)
        hc[t_] = dict(cfg)
        doc["_alias"] = True
        if draw(st.booleans()):
            doc["host_configurations"] = {a: hc[a] for a in sorted(hc, key=lambda a: (a != s_, a))}   # the sensitive one first
    return doc


def useful_actions(spec, acts, st_):
    out = []
    for a in acts:
        t = a.target
        comp, acc, reach, disc = st_[t]
        if a.kind == "exploit":
            if acc >= M.ROOT or (comp and a.grant <= acc):
                continue
        elif a.kind == "privesc":
            if not comp or acc >= a.grant:
                continue
        elif a.kind == "subnet_scan":
            if not comp:
                continue
        else:
            continue
        out.append(a)
    return out


def search(spec, acts):
    """exact optimisation over the model's monotone state graph.
    returns (best_total, best_seq, min_comp, min_seq, n_states) or None when capped."""
    memo = {}
    acts = [a for a in acts if a.prob > 0]

    class Capped(Exception):
        pass

    def best(st_):
        k = M.state_key(st_)
        if k in memo:
            return memo[k]
        if len(memo) > STATE_CAP:
            raise Capped()
        memo[k] = (None, None)
        if spec.goal(st_):
            ncomp = sum(1 for v in st_.values() if v[0])
            memo[k] = ((0.0, []), (ncomp, []))
            return memo[k]
        rb, rm = None, None
        for a in useful_actions(spec, acts, st_):
            p = M.step(spec, st_, a, "lo")
            if not p.success or p.state == st_:
                continue
            sb, sm = best(p.state)
            if sb is not None:
                tot = p.value - a.cost + sb[0]
                if rb is None or tot > rb[0] + 1e-9:
                    rb = (tot, [a] + sb[1])
            if sm is not None:
                if rm is None or sm[0] < rm[0]:
                    rm = (sm[0], [a] + sm[1])
        memo[k] = (rb, rm)
        return memo[k]
    try:
        rb, rm = best(spec.initial())
    except Capped:
        return None
    return rb, rm, len(memo)


def replay(h, seq):
    env = h.env
    env.reset()
    total, done = 0.0, False
    for a in seq:
        side, seed, draw = h.pick_seed(a, "lo", 0)
        np.random.seed(seed)
        o, r, done, tr, info = env.step(h.real_action(a))
        total += float(r)
    ncomp = sum(1 for v in h.dyn(env.current_state.tensor).values() if v[0] is True)
    return total, bool(done) and bool(env.goal_reached()), ncomp


def real_value_iteration(h, horizon, cap=700):
    """Model-free oracle for very small scenarios: explore the REAL environment's
    state graph (generative_step, draws forced to succeed), then maximise the total
    reward of goal-reaching episodes of at most `horizon` steps by dynamic
    programming.  Returns (best_total, action_list) or None (no goal / capped)."""
    env = h.env
    env.reset()
    start = env.current_state
    acts = [(i, a) for i, a in enumerate(h.real_actions) if a.prob > 0]
    seeds = {}
    for i, a in acts:
        r = draws.seed_for(float(a.prob), "lo", 0) if a.prob < 1 else (0, 0)
        if r is not None:
            seeds[i] = r[0]
    key0 = start.tensor.tobytes()
    states = {key0: start}
    goal = {key0: bool(env.goal_reached(start))}
    trans = {}
    queue = [key0]
    while queue:
        k = queue.pop(0)
        if goal[k]:
            trans[k] = []
            continue
        out = []
        st_ = states[k]
        for i, a in acts:
            if i not in seeds:
                continue
            np.random.seed(seeds[i])
            ns, obs, rew, done, info = env.generative_step(st_, a)
            nk = ns.tensor.tobytes()
            rew = float(rew)
            if nk == k and rew <= 0:
                continue            # a self-loop that costs something never helps
            if nk not in states:
                if len(states) >= cap:
                    return None
                states[nk] = ns
                goal[nk] = bool(done) or bool(env.goal_reached(ns))
                queue.append(nk)
            out.append((i, rew, nk))
        trans[k] = out
    NEG = float("-inf")
    V = {k: (0.0 if goal[k] else NEG) for k in states}
    choice = []
    for step in range(horizon):
        V2, ch = {}, {}
        for k in states:
            if goal[k]:
                V2[k] = 0.0
                continue
            best, arg = NEG, None
            for i, rew, nk in trans[k]:
                if V[nk] > NEG and rew + V[nk] > best:
                    best, arg = rew + V[nk], (i, nk)
            V2[k], ch[k] = best, arg
        V = V2
        choice.append(ch)
    if V[key0] == NEG:
        return None
    # extract the episode
    seq, k = [], key0
    for ch in reversed(choice):
        if goal[k]:
            break
        i, nk = ch[k]
        seq.append(i)
        k = nk
    return V[key0], seq, len(states)


def replay_real(h, seq):
    env = h.env
    env.reset()
    total, done = 0.0, False
    for i in seq:
        a = h.real_actions[i]
        np.random.seed(draws.seed_for(float(a.prob), "lo", 0)[0] if a.prob < 1 else 0)
        o, r, done, tr, info = env.step(int(i))
        total += float(r)
    return total, bool(done) and bool(env.goal_reached())


def steiner_branching(spec):
    """non-triviality: >= 2 distinct sensitive subnets that are not nested on a
    single shortest chain (approximated: >= 2 sensitive subnets)"""
    return len({a[0] for a in spec.sensitive}) >= 2


_GEN = [None]


def run_source(source, rep, record=True):
    failed = set()
    if record:
        rep.evaluated()
    try:
        try:
            if source.get("reuse") and source["kind"] == "gen":
                # the documented class API: one long-lived generator object.  The environment of scenario A is built,
                # then the generator produces another scenario - what A advertises must not move
                from nasim.scenarios.generator import ScenarioGenerator
                from .budget import guarded_generate
                if _GEN[0] is None:
                    _GEN[0] = ScenarioGenerator()
                scn_a = guarded_generate(lambda: _GEN[0].generate(**source["params"]))
                h = walk.Harness(M.Spec.from_scenario(scn_a), scn_a, {})
                before = (float(h.env.get_score_upper_bound()), int(h.env.get_minimum_hops()))
                other = dict(source["params"], r_sensitive=1, r_user=1, num_hosts=source["params"]["num_hosts"] + 1)
                other.pop("address_space_bounds", None)
                guarded_generate(lambda: _GEN[0].generate(**other))
                after = (float(h.env.get_score_upper_bound()), int(h.env.get_minimum_hops()))
                if record:
                    rep.count("generator-object-reused")
                if after != before:
                    raise Failure("C20:bound-moved", f"upper bound / minimum hops of an environment were {before}; after the same "
                                  f"ScenarioGenerator object generated another scenario they are {after}")
            else:
                h = walk.build_harness(source, {})
        except Failure:
            raise
        except Exception as e:
            inside, where = engine.from_nasim(sys.exc_info()[2])
            if not inside:
                raise
            if record:
                rep.count("construction-failed(other property)")
            return failed
        spec = h.spec
        if not in_domain(spec):
            if record:
                rep.count("outside-domain")
            return failed
        env = h.env
        bound = float(env.get_score_upper_bound())
        # rewards are float32 arithmetic on float32 state entries: stated tolerance 1e-5 x magnitude (as C05)
        scale = max([1.0, abs(bound)] + [abs(float(hh["value"])) for hh in spec.hosts.values()])
        tol = 1e-6 if scale < 1e5 else 1e-5 * scale
        hops = int(env.get_minimum_hops())
        res = search(spec, h.acts) if len(spec.addrs) <= 7 else None
        witnesses = []
        if res is not None:
            rb, rm, nstates = res
            if record:
                rep.count("exact-search")
                rep.extra["max_states_searched"] = max(rep.extra.get("max_states_searched", 0), nstates)
            if rb is None:
                if record:
                    rep.count("unsolvable")
                return failed
            witnesses = [("max-reward", rb[1]), ("min-hosts", rm[1])]
        else:
            plan, st_ = model_plan(spec, h.acts)
            if not spec.goal(st_):
                if record:
                    rep.count("unsolvable")
                return failed
            witnesses = [("greedy-pruned", prune_plan(spec, plan))]
            if record:
                rep.count("greedy-witness")
        # the same episodes through the parameterised action space (vectors): the reward of an episode does not
        # depend on how its actions are spelled
        hp = None
        for kind, seq in witnesses:
            if hp is None and any(a.kind in ("exploit", "privesc") for a in seq):
                try:
                    hp = walk.Harness(spec, h.scn, {"flat_actions": False})
                except Exception:
                    hp = False
            if hp:
                ptotal, pgoal, _ = replay(hp, seq)
                if record:
                    rep.count("witness-replayed-parameterised")
                if pgoal and ptotal > bound + tol:
                    raise Failure("C20:bound-parameterised", f"goal-reaching episode through the parameterised action space earns {ptotal} > "
                                  f"advertised upper bound {bound} (hops {hops}); episode {[repr(a) for a in seq]}")
            total, goal, ncomp = replay(h, seq)
            if not goal:
                if record:
                    rep.count("witness-not-goal-on-real-env(other property)")
                continue
            if record:
                rep.count("witness-replayed:" + kind)
            if total > bound + tol:
                raise Failure("C20:bound", f"goal-reaching episode earns {total} > advertised upper bound {bound} "
                              f"(hops {hops}); episode {[repr(a) for a in seq]}; topology {spec.topology}, sensitive {list(spec.sensitive)}")
            if hops > ncomp:
                raise Failure("C20:hops", f"get_minimum_hops() = {hops} but the goal is reached with only {ncomp} compromised hosts; "
                              f"episode {[repr(a) for a in seq]}; topology {spec.topology}, sensitive {list(spec.sensitive)}")
        if len(spec.addrs) <= 6:
            # model-free oracle: the real environment's own state graph
            vi = real_value_iteration(h, horizon=min(18, 4 * len(spec.addrs) + 2), cap=1500)
            if vi is None and record:
                rep.count("real-value-iteration-capped-or-no-goal")
            if vi is not None:
                best, seq, nst = vi
                total, goal = replay_real(h, seq)
                if record:
                    rep.count("real-value-iteration")
                    rep.extra["max_real_states"] = max(rep.extra.get("max_real_states", 0), nst)
                if goal and total > bound + tol:
                    raise Failure("C20:bound-real", f"goal-reaching episode of the real environment earns {total} > advertised upper bound {bound} "
                                  f"(hops {hops}); flat action indices {seq}; actions {[str(h.real_actions[i]) for i in seq][:12]}")
        if steiner_branching(spec):
            rep.nontriv(h.fp)
        if record:
            rep.count("source:" + source["kind"])
            rep.count(f"sensitive-subnets:{len({a[0] for a in spec.sensitive})}")
            if witnesses and len(rep.samples) < rep.max_samples:
                rep.sample(dict(topology=spec.topology, subnets=spec.subnets, sensitive=list(spec.sensitive), bound=bound, hops=hops,
                                witness=[repr(a) for a in witnesses[0][1]]))
    except walk.SourceRejected as e:
        if record:
            rep.count(f"source-rejected({e.owner})")
    except Failure as f:
        failed.add(f.bucket)
        if record:
            rep.fail(f.bucket, f.detail, dict(source=source))
    except Exception:
        # an environment that raises while an episode is played is broken in a way other properties own (C01-C08,
        # C10); nothing can be said about its bound
        inside, where = engine.from_nasim(sys.exc_info()[2])
        if not inside:
            raise
        if record:
            rep.count("episode-raised-inside-nasim(other property)")
    return failed


def _shard(shard, seed, tier, n_cases):
    rep = Reporter(PID, tier, RULE)
    cnt = [0]

    @hypothesis.seed(seed)
    @settings(max_examples=n_cases, deadline=None, database=None, phases=[Phase.generate], suppress_health_check=list(HealthCheck))
    @given(doc=c20_docs())
    def t(doc):
        run_source({"kind": "doc", "doc": doc}, rep)
    t()

    @hypothesis.seed(seed + 1)
    @settings(max_examples=max(4, n_cases // 8), deadline=None, database=None, phases=[Phase.generate], suppress_health_check=list(HealthCheck))
    @given(p=sources.gen_params(max_hosts=16 if tier == "quick" else 40))
    def g(p):
        p = dict(p)
        for k in ("exploit_cost", "privesc_cost", "service_scan_cost", "os_scan_cost", "subnet_scan_cost", "process_scan_cost"):
            if p.get(k, 1) < 1:
                p[k] = 1
        if p.get("base_host_value", 1) > 1:
            p["base_host_value"] = 1
        cnt[0] += 1
        # every third one on a long-lived ScenarioGenerator object that generates another scenario afterwards
        run_source({"kind": "gen", "params": p, "reuse": True} if cnt[0] % 3 == 0 else {"kind": "gen", "params": p}, rep)
    g()
    return rep


STAR = dict(
    subnets=[1, 1, 1], topology=[[1, 1, 0, 0], [1, 1, 1, 1], [0, 1, 1, 0], [0, 1, 0, 1]],
    sensitive_hosts={(2, 0): 100, (3, 0): 100}, os=["linux"], services=["ssh"], processes=["tomcat"],
    exploits={"e": dict(service="ssh", os="none", prob=0.5, cost=1, access="root")}, privilege_escalation={},
    service_scan_cost=1, os_scan_cost=1, subnet_scan_cost=1, process_scan_cost=1,
    host_configurations={(1, 0): dict(os="linux", services=["ssh"], processes=["tomcat"], value=1),
                         (2, 0): dict(os="linux", services=["ssh"], processes=["tomcat"]),
                         (3, 0): dict(os="linux", services=["ssh"], processes=["tomcat"])},
    firewall={(0, 1): ["ssh"], (1, 0): ["ssh"], (1, 2): ["ssh"], (2, 1): ["ssh"], (1, 3): ["ssh"], (3, 1): ["ssh"]})


def tight_doc(edges, n, sensitive):
    """tight-corner scenario on a given subnet graph: one host per subnet, cost-1 ROOT exploit,
    hop hosts worth exactly 1, no discovery values"""
    N = n + 1
    topo = [[1 if i == j else 0 for j in range(N)] for i in range(N)]
    for a, b in edges:
        topo[a][b] = topo[b][a] = 1
    hc = {(s_, 0): dict(os="linux", services=["ssh"], processes=["tomcat"]) for s_ in range(1, N)}
    for a in hc:
        if a not in sensitive:
            hc[a]["value"] = 1
    fw = {(i, j): ["ssh"] for i in range(N) for j in range(N) if i != j and topo[i][j]}
    return dict(subnets=[1] * n, topology=topo, sensitive_hosts=dict(sensitive), os=["linux"], services=["ssh"],
                processes=["tomcat"], exploits={"e": dict(service="ssh", os="none", prob=1.0, cost=1, access="root")},
                privilege_escalation={}, service_scan_cost=1, os_scan_cost=1, subnet_scan_cost=1, process_scan_cost=1,
                host_configurations=hc, firewall=fw)


CORPUS = [
    ("two-branches", tight_doc([(0, 1), (1, 2), (1, 3), (2, 4), (3, 5)], 5, {(4, 0): 10, (5, 0): 10})),
    ("h-shape", tight_doc([(0, 1), (1, 2), (2, 3), (2, 4), (4, 5), (4, 6)], 6, {(3, 0): 10, (5, 0): 10, (6, 0): 10})),
    ("chain", tight_doc([(0, 1), (1, 2), (2, 3), (3, 4)], 4, {(4, 0): 10, (2, 0): 10})),
    ("two-public", tight_doc([(0, 1), (0, 4), (1, 2), (2, 3), (3, 4)], 4, {(2, 0): 10, (3, 0): 10})),
    ("star-3", tight_doc([(0, 1), (1, 2), (1, 3), (1, 4)], 4, {(2, 0): 10, (3, 0): 10, (4, 0): 10})),
    ("star-9", tight_doc([(0, 1)] + [(1, k) for k in range(2, 11)], 10, {(k, 0): 10 for k in range(2, 11)})),
    ("two-hubs-8", tight_doc([(0, 1), (1, 2), (1, 3)] + [(2, k) for k in range(4, 8)] + [(3, k) for k in range(8, 12)], 11,
                             {(k, 0): 10 for k in range(4, 12)})),
]


def main(tier, replay_path=None):
    rep = Reporter(PID, tier, RULE, assumptions=[
        "discovery values are >= 0 (documented as the value of discovering a host)",
        "a violation needs a real-environment witness episode; the model only proposes it",
        f"exact search is capped at {STATE_CAP} model states per scenario; capped or large scenarios use pruned greedy plans as witnesses"])
    if replay_path:
        import json
        j = json.load(open(replay_path))
        src = engine.case_from_json(dict(source=j["case"]["source"], ops=[]))["source"]
        failed = run_source(src, rep)
        print(f"replay {replay_path}: failing buckets {sorted(failed)}")
        if failed:
            print(f"VIOLATION property={PID} replay={replay_path}")
            return 1
        return 0
    run_source({"kind": "doc", "doc": STAR}, rep)          # regression corpus: the repaired star topology
    for name, doc in CORPUS:                               # structurally distinct tight-corner topologies
        run_source({"kind": "doc", "doc": doc}, rep)
    for name in sources.shipped_names():
        run_source({"kind": "shipped", "name": name}, rep)
    nshards = 16 if tier == "thorough" else 8
    total = 16 * 5000 if tier == "thorough" else 1280
    for part in engine.run_shards(_shard, nshards, common.verif_seed(), tier=tier, n_cases=total // nshards):
        rep.merge(part)
    docs.cleanup()
    return rep.finish()
