"""Entry point: python -m nvf.runner <ID> [--tier quick|thorough] [--replay file]"""
import argparse
import os
import sys
import tempfile

from . import common


def dispatch(pid):
    from . import checks_dyn
    if pid in checks_dyn.CHECKS:
        return lambda tier, replay: checks_dyn.main(pid, tier, replay)
    import importlib
    try:
        mod = importlib.import_module(f"nvf.check_{pid.lower()}")
    except ModuleNotFoundError:
        return None
    return mod.main


def main():
    ap = argparse.ArgumentParser()
    ap.add_argument("pid")
    ap.add_argument("--tier", default=os.environ.get("VERIF_TIER", "quick"), choices=["quick", "thorough"])
    ap.add_argument("--replay")
    args = ap.parse_args()
    fn = dispatch(args.pid)
    if fn is None:
        print(f"HARNESS: no check for {args.pid}")
        return 2
    import nasim
    want = os.path.join(common.REPO, "nasim")
    if not os.path.abspath(nasim.__file__).startswith(os.path.abspath(want)):
        print(f"HARNESS: nasim imported from {nasim.__file__}, expected {want}")
        return 2
    # one scratch directory per run; every shard / worker creates its own below it; removed at the end
    base = tempfile.mkdtemp(prefix="nvf_run_")
    os.environ["NVF_TMP"] = base
    os.environ["HYPOTHESIS_STORAGE_DIRECTORY"] = os.path.join(base, "hypothesis")
    try:
        return _run(args, fn)
    finally:
        import shutil
        shutil.rmtree(base, ignore_errors=True)


def _run(args, fn):
    if args.pid not in ("C14", "C15", "C18"):
        from . import draws
        try:
            ok = draws.selftest() and draws.dynamics_controlled()
        except Exception as e:      # construction of the probe scenario failed: let the check itself report it
            ok = True
        if not ok:
            print("HARNESS: the dynamics do not draw from the seeded NumPy global generator - "
                  "draw-steering checks are inconclusive (not a violation)")
            return 2
    return common.harness_guard(lambda: fn(args.tier, args.replay))


if __name__ == "__main__":
    rc = main()
    sys.stdout.flush()
    sys.exit(rc)
