"""Per-property oracles over walker executions (C01-C08, C13).

Each oracle gets (h: Harness, rec: Rec, twin: Rec|None, rep: Reporter) and
raises common.Failure(clause, detail) when a clause of the property statement
does not hold on that execution.  Oracles only own the clauses of their own
property; a discrepancy owned by another property is not reported here.
"""
import numpy as np

from . import model as M
from .common import Failure

FLAGS = ("connection_error", "permission_error", "undefined_error")


def close(a, b, scale=1.0):
    a, b = float(a), float(b)
    return abs(a - b) <= 1e-5 * max(1.0, abs(a), abs(b), abs(scale))


def nt_key(h, rec):
    return (h.fp, M.state_key(rec.pre_model), rec.act.key(), rec.side)


def _succ(rec):
    return bool(rec.info["success"])


def ca(st):
    return {a: (v[0], v[1]) for a, v in st.items()}


# =========================================================================== C01
def c01(h, rec, twin, rep):
    act, g = rec.act, rec.pred.gates
    pre, post = rec.pre, rec.post
    t = act.target
    for a in pre:
        if (pre[a][0], pre[a][1]) == (post[a][0], post[a][1]):
            continue
        # compromised / access of host a changed
        if act.kind not in ("exploit", "privesc"):
            raise Failure("C01:scan-changed-access",
                          f"{act} changed compromised/access of {a}: {pre[a][:2]} -> {post[a][:2]}")
        if a != t:
            raise Failure("C01:other-host-changed",
                          f"{act} changed compromised/access of other host {a}: {pre[a][:2]} -> {post[a][:2]}")
        host_level = g & ({"service", "os"} if act.kind == "exploit"
                          else {"access", "process", "os"})
        if host_level:
            raise Failure("C01:changed-without-host-preconditions",
                          f"{act} changed {a} {pre[a][:2]} -> {post[a][:2]} although host-level "
                          f"preconditions fail: {sorted(host_level)}")
    if act.kind in ("exploit", "privesc"):
        host_only = g and not (g & set(M.NET_GATES))
        if not g or host_only or g == {"access"}:
            rep.nontriv(*nt_key(h, rec))
        rep.count(f"C01:{act.kind}:" + ("ok" if not g else "+".join(sorted(g))))
        if not g and (rec.side == "lo" or rec.pred.immune):
            want_acc = max(pre[t][1], act.grant)
            if not _succ(rec):
                raise Failure("C01:must-succeed",
                              f"{act} has all preconditions, draw {rec.draw} < prob {act.prob} "
                              f"(immune={rec.pred.immune}) but failed: {flags(rec)}")
            if post[t][0] is not True or post[t][1] != want_acc:
                raise Failure("C01:wrong-access",
                              f"{act} succeeded: compromised/access {post[t][:2]} expected (True, {want_acc}) "
                              f"(previous {pre[t][:2]}, grants {act.grant})")


def flags(rec):
    return {k: rec.info.get(k) for k in ("success",) + FLAGS}


# =========================================================================== C02
def c02(h, rec, twin, rep):
    act, g = rec.act, rec.pred.gates
    if act.kind == "noop":
        return
    net = g & set(M.NET_GATES)
    if len(g) == 1 and net:
        rep.nontriv(*nt_key(h, rec))
    rep.count("C02:net:" + ("none" if not net else "+".join(sorted(net))))
    if not g and act.kind == "exploit":
        inet, sub_ok, full_ok = M.positions(h.spec, rec.pre_model, act)
        if len(sub_ok) > len(full_ok) or (h.spec.public(act.target[0]) and not inet):
            rep.nontriv(*nt_key(h, rec))
            rep.count("C02:pass-with-blocked-position")
    if not net:
        return
    why = "+".join(sorted(net))
    if _succ(rec):
        raise Failure(f"C02:succeeded-despite:{why}",
                      f"{act} succeeded although network-level gate(s) {sorted(net)} fail "
                      f"in state {compact(rec.pre_model)}", bucket=f"C02:{act.kind}:{why}")
    if rec.post_t.tobytes() != rec.pre_t.tobytes():
        raise Failure(f"C02:changed-despite:{why}",
                      f"{act} blocked by {sorted(net)} changed the state: {diffstate(rec)}",
                      bucket=f"C02:changed:{act.kind}:{why}")
    if float(rec.info["value"]) != 0.0:
        raise Failure(f"C02:value-despite:{why}", f"{act} blocked by {sorted(net)} gained {rec.info['value']}")


def compact(st):
    return {a: v for a, v in st.items() if v[0] or v[3]}


def diffstate(rec):
    return {a: (rec.pre[a], rec.post[a]) for a in rec.pre if rec.pre[a] != rec.post[a]}


# =========================================================================== C03
def c03_invariants(h, st, where):
    spec = h.spec
    comp_subnets = {a[0] for a in st if st[a][0] is True}
    for a, (comp, acc, reach, disc) in st.items():
        want = spec.public(a[0]) or any(spec.conn(c, a[0]) for c in comp_subnets)
        if reach is not want:
            raise Failure("C03:reachable", f"{where}: host {a} reachable={reach} but expected {want} "
                          f"(public={spec.public(a[0])}, compromised subnets={sorted(comp_subnets)})")
        if comp is True and disc is not True:
            raise Failure("C03:compromised-not-discovered", f"{where}: host {a} compromised but not discovered")
        if disc is True and reach is not True:
            raise Failure("C03:discovered-not-reachable", f"{where}: host {a} discovered but not reachable")
        if disc not in (True, False) or reach not in (True, False):
            raise Failure("C03:non-boolean", f"{where}: host {a} reach={reach} disc={disc}")


def c03(h, rec, twin, rep):
    spec, act = h.spec, rec.act
    pre, post = rec.pre, rec.post
    c03_invariants(h, post, f"after {act}")
    changed = {a for a in pre if pre[a][3] != post[a][3]}
    deep = any(post[a][0] is True and not spec.public(a[0]) for a in post)
    if deep:
        rep.nontriv("deep", h.fp, M.state_key(post))
    if act.kind == "subnet_scan" and _succ(rec):
        t = act.target
        if pre[t][0] is not True:
            raise Failure("C03:scan-from-uncompromised", f"{act} succeeded on an uncompromised host")
        want = {a for a in spec.addrs if spec.conn(t[0], a[0])}
        now = {a for a in post if post[a][3] is True}
        before = {a for a in pre if pre[a][3] is True}
        if now != before | want:
            raise Failure("C03:scan-discovers-exactly",
                          f"{act}: discovered after = {sorted(now)}, expected {sorted(before | want)}")
        info_d = {tuple(k) for k, v in rec.info["discovered"].items() if v}
        info_n = {tuple(k) for k, v in rec.info["newly_discovered"].items() if v}
        if info_d != want:
            raise Failure("C03:info-discovered", f"{act}: info['discovered'] marks {sorted(info_d)}, expected {sorted(want)}")
        if info_n != want - before:
            raise Failure("C03:info-newly", f"{act}: info['newly_discovered'] marks {sorted(info_n)}, expected {sorted(want - before)}")
        if want - before:
            rep.nontriv("scan", h.fp, M.state_key(rec.pre_model), act.key())
            rep.count("C03:scan-newly-discovers")
    elif changed:
        raise Failure("C03:discovered-without-scan",
                      f"{act} (success={_succ(rec)}) changed discovered of {sorted(changed)}")
    rep.count("C03:steps")


def c03_reset(h, tensor, rep, where="reset"):
    st = h.dyn(tensor)
    c03_invariants(h, st, where)
    for a, (comp, acc, reach, disc) in st.items():
        if disc is not h.spec.public(a[0]):
            raise Failure("C03:initial-discovered", f"{where}: host {a} discovered={disc}, public={h.spec.public(a[0])}")


# =========================================================================== C04
def c04(h, rec, twin, rep):
    pre, post = rec.pre, rec.post
    for a in pre:
        c0, a0, r0, d0 = pre[a]
        c1, a1, r1, d1 = post[a]
        if (c0 is True and c1 is not True) or (r0 is True and r1 is not True) \
           or (d0 is True and d1 is not True):
            raise Failure("C04:status-lost", f"{rec.act}: host {a} {pre[a]} -> {post[a]}")
        if not (isinstance(a1, int) and a1 >= a0):
            raise Failure("C04:access-decreased", f"{rec.act}: host {a} access {a0} -> {a1}")
    if h.layout.static_part(rec.post_t).tobytes() != h.static0:
        bad = np.argwhere(h.layout.static_part(rec.post_t) != h.layout.static_part(h.initial_tensor))
        raise Failure("C04:configuration-changed",
                      f"{rec.act} altered immutable columns at (row, col) {bad[:5].tolist()}")
    if rec.act.kind == "exploit" and rec.pre[rec.act.target][1] == M.ROOT and rec.act.grant == M.USER \
       and not rec.pred.gates:
        rep.nontriv("reexploit", *nt_key(h, rec))
        rep.count("C04:user-exploit-on-root-host")
    rep.count("C04:steps")


def c04_reset(h, obs, rep):
    env = h.env
    if env.steps != 0:
        raise Failure("C04:reset-steps", f"steps == {env.steps} after reset")
    t = env.current_state.tensor
    if t.tobytes() != h.initial_tensor.tobytes():
        bad = np.argwhere(t != h.initial_tensor)
        raise Failure("C04:reset-state", f"state after reset differs from the initial state at {bad[:5].tolist()}")
    st = h.dyn(t)
    for a, (comp, acc, reach, disc) in st.items():
        pub = h.spec.public(a[0])
        if comp is not False or acc != 0 or reach is not pub or disc is not pub:
            raise Failure("C04:reset-not-initial", f"after reset host {a}: {st[a]} (public={pub})")
    o = h.obs2d(obs)
    if o.tobytes() != h.initial_obs.tobytes():
        raise Failure("C04:reset-observation", "observation returned by reset differs from the first initial observation")
    if env.last_obs.tensor.tobytes() != h.initial_obs.tobytes():
        raise Failure("C04:reset-last-obs", "last_obs after reset differs from the first initial observation")


# =========================================================================== C05
def c05(h, rec, twin, rep):
    act, spec = rec.act, h.spec
    pre, post = rec.pre, rec.post
    # value that may be paid, derived from the REAL transition
    want = 0.0
    what = "nothing"
    if _succ(rec):
        t = act.target
        if act.kind in ("exploit", "privesc") and isinstance(pre[t][1], int) \
           and pre[t][1] < M.ROOT and post[t][1] == M.ROOT:
            want = spec.hosts[t]["value"]
            what = f"value of {t} (root first obtained)"
        elif act.kind == "subnet_scan":
            newly = [a for a in pre if pre[a][3] is False and post[a][3] is True]
            want = sum(spec.hosts[a]["dvalue"] for a in newly)
            what = f"discovery values of {newly}"
    cost = 0.0 if act.kind == "noop" else act.cost
    scale = max(abs(want), abs(cost))
    if not close(rec.info["value"], want, scale):
        raise Failure("C05:value", f"{act} success={_succ(rec)}: info['value']={rec.info['value']} expected {want} ({what})",
                      bucket=f"C05:value:{act.kind}")
    if not close(rec.reward, want - cost, scale):
        raise Failure("C05:reward", f"{act} success={_succ(rec)}: reward={rec.reward} expected value {want} - cost {cost}",
                      bucket=f"C05:reward:{act.kind}")
    if want != 0.0:
        rep.nontriv(*nt_key(h, rec))
        rep.count("C05:paying-step")
    if rec.mode == "step":
        # ledger over the episode: nothing is paid twice
        led = h.ledger
        if want != 0.0 or float(rec.info["value"]) != 0.0:
            if act.kind in ("exploit", "privesc"):
                key = ("host", act.target)
                if key in led:
                    raise Failure("C05:paid-twice", f"{act}: value of {act.target} paid a second time")
                led.add(key)
            elif act.kind == "subnet_scan":
                for a in pre:
                    if pre[a][3] is False and post[a][3] is True:
                        if ("disc", a) in led:
                            raise Failure("C05:paid-twice", f"{act}: discovery value of {a} paid a second time")
                        led.add(("disc", a))
        elif act.kind in ("exploit", "privesc") and ("host", act.target) in led and _succ(rec):
            rep.nontriv("repeat", *nt_key(h, rec))
            rep.count("C05:repeat-after-paid")
    rep.count("C05:steps")


# =========================================================================== C06
def c06(h, rec, twin, rep):
    spec, env = h.spec, h.env
    goal = all(rec.post[a][1] == M.ROOT for a in spec.sensitive)
    if bool(rec.done) is not goal:
        raise Failure("C06:done", f"{rec.act}: done={rec.done} but sensitive access = "
                      f"{ {a: rec.post[a][1] for a in spec.sensitive} }", bucket=f"C06:done:{rec.mode}")
    if not isinstance(rec.done, (bool, np.bool_)):
        raise Failure("C06:done-type", f"done is {type(rec.done)}")
    ns = rec.ret[0] if rec.mode == "gen" else env.current_state
    if bool(env.goal_reached(ns)) is not goal:
        raise Failure("C06:goal-query", f"goal_reached(next state)={env.goal_reached(ns)} expected {goal}")
    if rec.mode == "step":
        if bool(env.goal_reached()) is not goal:
            raise Failure("C06:goal-query-current", f"goal_reached()={env.goal_reached()} expected {goal}")
        lim = spec.step_limit
        want = lim is not None and h.shadow_steps >= lim
        if bool(rec.trunc) is not want:
            raise Failure("C06:step-limit", f"step-limit flag={rec.trunc} after {h.shadow_steps} step() calls, limit {lim}")
        if env.steps != h.shadow_steps:
            raise Failure("C06:step-counter", f"env.steps={env.steps} after {h.shadow_steps} step() calls since reset")
        if lim is not None and abs(h.shadow_steps - lim) <= 1:
            rep.nontriv("limit", h.fp, lim, h.shadow_steps, M.state_key(rec.pre_model), rec.act.key())
            rep.count("C06:at-limit")
    else:
        if rec.steps_after != rec.steps_before:
            raise Failure("C06:generative-counts", f"generative_step moved env.steps {rec.steps_before} -> {rec.steps_after}")
        # the goal query about the CURRENT state is not touched by a generative step (whatever state object it was given)
        cur = h.dyn(env.current_state.tensor)
        cur_goal = all(cur[a][1] == M.ROOT for a in spec.sensitive)
        for label, got in (("goal_reached()", env.goal_reached()), ("goal_reached(current_state)", env.goal_reached(env.current_state))):
            if bool(got) is not cur_goal:
                raise Failure("C06:goal-query-after-generative", f"after generative_step({rec.act}) on "
                              f"{'the current state object' if rec.state_arg_is_current else 'an earlier state'}: {label}={got} but the "
                              f"current state's sensitive access is { {a: cur[a][1] for a in spec.sensitive} }")
        if goal and not cur_goal and rec.state_arg_is_current:
            rep.count("C06:generative-win-from-live-state")
    accs = [rec.post[a][1] for a in spec.sensitive]
    if any(x == M.USER for x in accs) or (len(accs) > 1 and sum(1 for x in accs if x == M.ROOT) == len(accs) - 1):
        rep.nontriv("partial", h.fp, M.state_key(rec.pred.state))
        rep.count("C06:partial-goal")
    if goal:
        rep.count("C06:goal-states")
    rep.count("C06:steps")


def c06_saved(h, rep):
    for state, mst in h.saved:
        want = h.spec.goal(mst)
        if bool(h.env.goal_reached(state)) is not want:
            raise Failure("C06:goal-query-saved", f"goal_reached(saved state)={h.env.goal_reached(state)} expected {want}")


# =========================================================================== C07
def c07(h, rec, twin, rep):
    act, g, info = rec.act, rec.pred.gates, rec.info
    succ = _succ(rec)
    nflags = sum(1 for f in FLAGS if info.get(f))
    if succ and nflags:
        raise Failure("C07:success-with-error", f"{act}: {flags(rec)}")
    if nflags > 1:
        raise Failure("C07:several-errors", f"{act}: {flags(rec)}")
    if rec.ndraws is None or rec.ndraws > 1:
        raise Failure("C07:draws", f"{act}: {rec.ndraws} uniform draws consumed by one step (expected <= 1)")
    if act.kind == "noop":
        return
    p = act.prob
    if not g:
        if rec.pred.immune:
            if not succ:
                raise Failure("C07:reexploit-failed", f"{act} on an already compromised host failed (draw {rec.draw}, prob {p}): {flags(rec)}")
            if rec.draw > p:
                rep.nontriv(*nt_key(h, rec))
                rep.count("C07:reexploit-high-draw")
        elif rec.side == "lo":
            if not succ:
                raise Failure("C07:lo-draw-failed", f"{act}: preconditions hold, draw {rec.draw} < prob {p} but failed: {flags(rec)}",
                              bucket=f"C07:lo-draw-failed:{act.kind}")
            if rec.post != rec.pred.state:
                raise Failure("C07:lo-draw-effects", f"{act}: succeeded but state {diffstate(rec)} != predicted")
            if p < 1.0 or rec.draw > 0.99:
                rep.nontriv(*nt_key(h, rec))
                rep.count("C07:chance-success" if p < 1.0 else "C07:prob1-adverse-draw")
        else:
            if succ:
                raise Failure("C07:hi-draw-succeeded", f"{act}: draw {rec.draw} > prob {p} but succeeded",
                              bucket=f"C07:hi-draw-succeeded:{act.kind}")
            if rec.post_t.tobytes() != rec.pre_t.tobytes():
                raise Failure("C07:chance-failure-changed-state", f"{act}: {diffstate(rec)}")
            if float(info["value"]) != 0.0:
                raise Failure("C07:chance-failure-value", f"{act}: value {info['value']}")
            if not info.get("undefined_error") or info.get("connection_error") or info.get("permission_error"):
                raise Failure("C07:chance-failure-flag", f"{act}: chance failure reported as {flags(rec)}")
            rep.nontriv(*nt_key(h, rec))
            rep.count("C07:chance-failure" if p > 0.0 else "C07:prob0-adverse-draw")
    if twin is not None and twin.side != rec.side and rec.opname == "alt":
        # same state, same action, draws on both sides of prob
        early = g & {"discovery", "pivot", "subnetfw", "hostfw"} or (act.kind == "privesc" and rec.pre_model[act.target][0] is not True)
        if g:
            if _succ(twin) != succ or twin.post_t.tobytes() != rec.post_t.tobytes() \
               or float(twin.info["value"]) != float(info["value"]):
                raise Failure("C07:precondition-failure-depends-on-chance",
                              f"{act} gates {sorted(g)}: lo/hi draws give {flags(twin)} vs {flags(rec)}")
            if early and canon_info(twin.info) != canon_info(info):
                raise Failure("C07:early-gate-result-depends-on-chance",
                              f"{act} gates {sorted(g)}: info differs between draws: {flags(twin)} vs {flags(rec)}")
            rep.count("C07:gated-both-sides")
    rep.count("C07:steps")


def canon_info(info):
    out = {}
    for k, v in info.items():
        if isinstance(v, dict):
            out[k] = sorted((str(a), float(b) if not isinstance(b, (bool, np.bool_)) else bool(b)) for a, b in v.items())
        elif isinstance(v, (bool, np.bool_)):
            out[k] = bool(v)
        else:
            out[k] = float(v)
    return out


# =========================================================================== C08
ENTITLED = {
    "exploit": ("compromised", "services", "os", "access", "value"),
    "privesc": ("compromised", "access"),
    "service_scan": ("services",),
    "os_scan": ("os",),
    "process_scan": ("processes", "access"),
    "subnet_scan": ("compromised",),
}
BASE = ("address", "reachable", "discovered")


def expected_obs(h, rec):
    L = h.layout
    n = len(h.spec.addrs)
    exp = np.zeros((n + 1, L.width), dtype=np.float32)
    info = rec.info
    exp[n, 0] = float(bool(info["success"]))
    exp[n, 1] = float(bool(info["connection_error"]))
    exp[n, 2] = float(bool(info["permission_error"]))
    exp[n, 3] = float(bool(info["undefined_error"]))
    if h.modes.get("fully_obs"):
        exp[:n] = rec.post_t
        return exp
    act = rec.act
    if act.kind == "noop" or not info["success"]:
        return exp

    def reveal(addr, groups):
        i = h.rowmap[addr]
        for gname in groups:
            cols = L.cols(gname)
            exp[i, cols] = rec.post_t[i, cols]
    if act.kind == "subnet_scan":
        t = act.target
        for a in h.spec.addrs:
            if h.spec.conn(t[0], a[0]):
                newly = rec.pre[a][3] is False
                reveal(a, BASE + (("discovery_value",) if newly else ()))
        # the scanning host's own row is written last, without discovery value
        i = h.rowmap[t]
        exp[i, :] = 0
    reveal(act.target, BASE + ENTITLED[act.kind])
    return exp


def c08(h, rec, twin, rep):
    exp = expected_obs(h, rec)
    if rec.obs.dtype != np.float32:
        raise Failure("C08:dtype", f"observation dtype {rec.obs.dtype}")
    if not np.array_equal(rec.obs, exp):
        bad = np.argwhere(rec.obs != exp)
        n = len(h.spec.addrs)
        rows = sorted({int(b[0]) for b in bad})
        inv = {i: a for a, i in h.rowmap.items()}
        desc = []
        for r, c in bad[:6]:
            where = "aux" if r == n else inv[int(r)]
            desc.append(f"[{where}, col {int(c)} ({colname(h.layout, int(c))})] got {rec.obs[r, c]} expected {exp[r, c]}")
        kind = "aux" if rows == [n] else ("leak" if any(rec.obs[r, c] != 0 and exp[r, c] == 0 for r, c in bad) else
                                          ("missing" if any(rec.obs[r, c] == 0 for r, c in bad) else "untruthful"))
        raise Failure(f"C08:{kind}", f"{rec.act} success={_succ(rec)} fully_obs={bool(h.modes.get('fully_obs'))}: " + "; ".join(desc),
                      bucket=f"C08:{kind}:{rec.act.kind}:{'full' if h.modes.get('fully_obs') else 'partial'}")
    if _succ(rec) and rec.act.kind != "noop" and not h.modes.get("fully_obs"):
        rep.nontriv(*nt_key(h, rec))
    rep.count(f"C08:{rec.act.kind}:{'succ' if _succ(rec) else 'fail'}:{'full' if h.modes.get('fully_obs') else 'partial'}")


def colname(L, c):
    if c < L.b0:
        return "subnet"
    if c < L.i_comp:
        return "host"
    names = ["compromised", "reachable", "discovered", "value", "discovery_value", "access"]
    if c < L.i_os:
        return names[c - L.i_comp]
    if c < L.i_srv:
        return "os:" + L.os[c - L.i_os]
    if c < L.i_proc:
        return "service:" + L.services[c - L.i_srv]
    return "process:" + L.processes[c - L.i_proc]


def c08_initial(h, obs2d, tensor, rep, where):
    L = h.layout
    n = len(h.spec.addrs)
    exp = np.zeros((n + 1, L.width), dtype=np.float32)
    if h.modes.get("fully_obs"):
        exp[:n] = tensor
    else:
        st = h.dyn(tensor)
        for a, i in h.rowmap.items():
            if st[a][2] is True:
                for gname in BASE:
                    cols = L.cols(gname)
                    exp[i, cols] = tensor[i, cols]
    if not np.array_equal(obs2d, exp):
        bad = np.argwhere(obs2d != exp)
        raise Failure("C08:initial-observation", f"{where}: initial observation differs at {bad[:6].tolist()} "
                      f"(fully_obs={bool(h.modes.get('fully_obs'))})")


# =========================================================================== C13
def c13(h, rec, twin, rep):
    if rec.mode == "gen":
        pu = rec.purity
        for k in ("arg_unchanged", "cur_unchanged", "obs_unchanged", "steps_unchanged"):
            if not pu[k]:
                raise Failure(f"C13:{k}", f"generative_step({rec.act}) on {'current' if rec.state_arg_is_current else 'a saved'} state: {k} is False",
                              bucket=f"C13:{k}")
        if pu["shares"] or pu["same_obj"]:
            raise Failure("C13:shares-storage", f"generative_step({rec.act}): next state shares storage with its input")
        ns, obs = rec.ret
        # writing into the returned state must not reach the input state / env
        cur = h.env.current_state.tensor.tobytes()
        keep = np.array(ns.tensor, copy=True)
        ns.tensor += 1.0
        leaked = h.env.current_state.tensor.tobytes() != cur
        ns.tensor[:] = keep
        if leaked:
            raise Failure("C13:write-through", f"writing into the state returned by generative_step({rec.act}) changed the environment's current state")
        if rec.post_t.tobytes() != rec.pre_t.tobytes():
            rep.nontriv(*nt_key(h, rec))
            rep.count("C13:gen-state-changing")
        if not rec.state_arg_is_current:
            rep.nontriv("saved", *nt_key(h, rec))
            rep.count("C13:gen-on-saved-state")
        rep.count("C13:gen")
        return
    # step: must agree with the same-seed generative execution
    if twin is None or twin.seed != rec.seed:
        return
    if rec.post_t.tobytes() != twin.post_t.tobytes():
        raise Failure("C13:step-state", f"step({rec.act}) next state differs from generative_step with the same draw")
    if h.env.current_state.tensor.tobytes() != twin.post_t.tobytes():
        raise Failure("C13:step-install", f"step({rec.act}) did not install the generative next state")
    if not np.array_equal(rec.obs, twin.obs):
        raise Failure("C13:step-obs", f"step({rec.act}) observation differs from generative_step")
    if not np.array_equal(h.env.last_obs.tensor, twin.obs):
        raise Failure("C13:step-last-obs", f"last_obs after step({rec.act}) differs from the generative observation")
    if float(rec.reward) != float(twin.reward) or bool(rec.done) != bool(twin.done):
        raise Failure("C13:step-reward-done", f"step({rec.act}): reward/done {rec.reward}/{rec.done} vs generative {twin.reward}/{twin.done}")
    if canon_info(rec.info) != canon_info(twin.info):
        raise Failure("C13:step-info", f"step({rec.act}): info differs from generative_step")
    if rec.steps_after != rec.steps_before + 1:
        raise Failure("C13:step-counter", f"step moved env.steps {rec.steps_before} -> {rec.steps_after}")
    rep.count("C13:step-agrees")
