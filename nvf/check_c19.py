"""C19 Environment instances are independent of each other (differential on
interleavings of constructions, resets and steps of several environments)."""
import contextlib
import io
import sys

import numpy as np
from hypothesis import strategies as st

from . import common, docs, draws, engine, model as M, sources, walk
from .common import Failure, Reporter
from .oracles import canon_info

PID = "C19"
RULE = ("cases = (scenario X, scenario Y, history of A on X, schedule of foreign operations). A runs its history alone (per-step seeds) "
        "-> reference trajectory (observations, rewards, flags, info, state tensors, get_readable() of state and last observation, "
        "render_obs / render_state of the arrays). A fresh A' then runs the same history while the schedule interleaves: construct "
        "B on Y, reset B, step B (own seeds), drop B, construct a third environment (on X, Y or a shipped scenario), copy A' "
        "(copy.deepcopy / pickle round trip) and step the copy. After EVERY "
        "foreign operation A' is re-read and must equal the reference; every step of A' must equal the reference step. Pairs: Y == X, "
        "same layout / different content, different layouts. Also make_benchmark_scenario(name, seed) before/after calls with other "
        "seeds. In a quarter of the cases the actions are Action objects built with the public constructors, one object per action "
        "shared by all environments of the case (B performs the object A' is about to use). Non-trivial = X and Y have different vector layouts and at least one foreign operation lies between two steps of A'; "
        "distinct by (X, Y, schedule).")


_CONFIRM = [0]


def norm(x):
    if isinstance(x, dict):
        return {str(k): norm(v) for k, v in x.items()}
    if isinstance(x, (list, tuple)):
        return [norm(v) for v in x]
    if isinstance(x, (bool, np.bool_)):
        return bool(x)
    if isinstance(x, (int, float, np.integer, np.floating)):
        return float(x)
    return str(x)


def view(env, render):
    """everything a user can read from an environment between two steps"""
    v = dict(state=env.current_state.tensor.tobytes(), obs=env.last_obs.tensor.tobytes(), steps=int(env.steps),
             state_readable=norm(env.current_state.get_readable()),
             obs_readable=norm(env.last_obs.get_readable()),
             goal=bool(env.goal_reached()))
    if render:
        b = io.StringIO()
        with contextlib.redirect_stdout(b):
            env.render_obs("human", env.last_obs.numpy_flat())
            env.render_state("human", env.current_state.numpy_flat())
        v["render"] = b.getvalue()
    def q(fn):
        try:
            with contextlib.redirect_stdout(io.StringIO()):
                return fn()
        except Exception as e:
            inside, where = engine.from_nasim(sys.exc_info()[2])
            if not inside:
                raise
            return f"raises {type(e).__name__}"
    # the read-only public methods: same answers (or the same exception) whether or not other environments exist
    v["initial_state"] = q(lambda: env.generate_initial_state().tensor.tobytes())
    v["hops"] = q(lambda: int(env.get_minimum_hops()))
    v["bound"] = q(lambda: float(env.get_score_upper_bound()))
    if hasattr(env.action_space, "n"):
        v["mask"] = q(lambda: np.asarray(env.get_action_mask()).tobytes())
    return v


def step_out(out):
    o, r, d, t, info = out
    return dict(obs=np.asarray(o).tobytes(), shape=tuple(np.asarray(o).shape), reward=float(r), done=bool(d), trunc=bool(t),
                info=canon_info(info))


def first_diff(a, b):
    for k in a:
        if a[k] != b.get(k):
            return k
    return None


def layout_sig(spec):
    return (tuple(spec.bounds), tuple(spec.os), tuple(spec.services), tuple(spec.processes))


def run_case(case, rep, record=True):
    failed = set()
    stage = "setup"

    def fail(f):
        failed.add(f.bucket)
        if record:
            rep.fail(f.bucket, f.detail, case)
    try:
        modes = dict(case.get("modes") or {})
        modes.setdefault("flat_actions", True)
        render = bool(case.get("render", True))
        specY, scnY = None, None

        def build_y():
            nonlocal specY, scnY
            if scnY is None:
                if case["y"] == "same":
                    hy = walk.build_harness(case["x"], {})
                else:
                    hy = walk.build_harness(case["y"], {})
                specY, scnY = hy.spec, hy.scn
            return scnY
        # ------------------------------------------------ model-referenced run: A'' next to other environments must
        # behave as the reference model says a lone environment behaves
        stage = "model"
        f = model_run(case, with_foreign=True, build_y=build_y)
        if record:
            rep.count("model-referenced-runs")
        if f is not None:
            _CONFIRM[0] += 1
            solo = solo_in_subprocess(case) if _CONFIRM[0] <= 8 else "SKIPPED (confirmation budget of this shard used up)"
            if solo == "SOLO-OK":
                raise Failure("C19:model:" + f.clause, f"next to other environments: {f.detail} -- the same history in a process of its own passes",
                              bucket="C19:model:" + f.bucket)
            if record:
                rep.count("model-failure-also-alone(other property)" if solo.startswith("SOLO-FAIL") else "solo-confirmation-inconclusive")
        stage = "setup"
        # ------------------------------------------------ reference: A alone
        hA = walk.build_harness(case["x"], modes)
        specX = hA.spec
        shared_objs = {}
        builders = {}
        fresh = {}
        concrete = []       # (kind, real action, seed)
        ref_views = [view(hA.env, render)]
        ref_steps = []
        for op in case["ops"]:
            if op[0] == "x":
                o, _ = hA.reset()
                concrete.append(("reset", None, None))
                ref_steps.append(dict(obs=np.asarray(o).tobytes()))
            elif op[0] in ("g", "o", "b"):
                continue
            else:
                act = hA.choose(op)
                side, seed, draw = hA.pick_seed(act, op[-2], op[-1])
                a = hA.real_action(act)
                if case.get("action_objects") and act.kind != "noop":
                    # Action objects are accepted by step(): one object per abstract action, made with the public
                    # constructors and used by every environment of this case (the reference run, A' and B)
                    a = shared_objs.setdefault(act.key(), hA.hand_built(act))
                    builders[id(a)] = (act.key(), lambda act=act, hb=walk.Harness.hand_built: hb(None, act))
                np.random.seed(seed)
                out = hA.env.step(a)
                hA.mst = hA.dyn(hA.env.current_state.tensor)
                hA.last_act = act
                concrete.append(("step", a, seed))
                ref_steps.append(step_out(out))
            ref_views.append(view(hA.env, render))
        scnX = hA.scn
        del hA
        if record:
            rep.evaluated()
        # ------------------------------------------------ interleaved: A' with foreign operations
        stage = "interleaved"
        B = [None]
        third = []
        foreign_between = 0
        different = None
        for fop in case.get("pre", []):
            if fop[0] == "construct_B":
                B[0] = sources.make_env(build_y(), **dict(fop[1]))
            elif fop[0] == "third":
                third.append(sources.make_env(build_y()))
            foreign_between += 1
            if record:
                rep.count("foreign-before-construction:" + fop[0])
        envA = sources.make_env(scnX, **modes)

        def check_view(i, why):
            v = view(envA, render)
            k = first_diff(ref_views[i], v)
            if k is not None:
                raise Failure(f"C19:view:{k}", f"after foreign operation '{why}' (before A's operation {i}) A's {k} differs from the run "
                              f"where A is the only environment", bucket=f"C19:view:{k}")

        check_view(0, "construction of A'")
        sched = case["schedule"]
        for i, (kind, a, seed) in enumerate(concrete):
            if id(a) in builders:
                # a second set of objects for this run (the reference run must not have touched them): B may
                # be the first environment to perform an object that A' uses afterwards
                key, mk = builders[id(a)]
                a = fresh.setdefault(key, mk())
            for fop in (sched[i] if i < len(sched) else []):
                name = fop[0]
                if name == "construct_B":
                    B[0] = sources.make_env(build_y(), **dict(fop[1]))
                elif name == "reset_B" and B[0] is not None:
                    B[0].reset()
                elif name == "step_B" and B[0] is not None:
                    for j in range(fop[1]):
                        np.random.seed(fop[2] + j)
                        n = B[0].action_space.n if hasattr(B[0].action_space, "n") else None
                        if n is not None:
                            B[0].step(int((fop[2] * 7919 + j * 104729) % n))
                        else:
                            B[0].action_space.seed(fop[2] + j)
                            B[0].step(B[0].action_space.sample())
                elif name == "drop_B":
                    B[0] = None
                elif name == "copy_A":
                    # a copy of A' (copy.deepcopy / a pickle round trip) is one more environment: stepping it
                    # must not change A'.  Whether an environment CAN be copied is not C19's business.
                    import copy
                    import pickle
                    if B[0] is not None and fop[2] % 2:
                        B[0].generate_initial_state()        # (the other environment was the last one to build a state)
                    try:
                        twin = copy.deepcopy(envA) if fop[1] == "deepcopy" else pickle.loads(pickle.dumps(envA))
                        twinB = None
                        if B[0] is not None:
                            twinB = copy.deepcopy(B[0]) if fop[1] == "deepcopy" else pickle.loads(pickle.dumps(B[0]))
                    except Exception:
                        if record:
                            rep.count("copy-not-supported:" + fop[1])
                        continue
                    # a copy is an environment in the state of its original: it reads like its original, whatever
                    # other environments (and copies of them) exist
                    for orig, cp, who in ((envA, twin, "A'"), (B[0], twinB, "B")):
                        if cp is None:
                            continue
                        seen = view(cp, False)      # (the copy first: reading the original re-initialises shared layout)
                        k_ = first_diff(view(orig, False), seen)
                        if k_ is not None:
                            raise Failure(f"C19:copy:{k_}", f"a {fop[1]} copy of {who} made while other environments exist reads "
                                          f"differently from {who} itself ({k_})", bucket=f"C19:copy:{k_}")
                    if twinB is not None:
                        third.append(twinB)
                    for j in range(fop[2]):
                        np.random.seed(fop[3] + j)
                        if hasattr(twin.action_space, "n"):
                            twin.step(int((fop[3] * 7919 + j * 104729) % twin.action_space.n))
                        else:
                            twin.action_space.seed(fop[3] + j)
                            twin.step(twin.action_space.sample())
                    if j % 2:
                        twin.reset()
                    third.append(twin)
                    third[:] = third[-2:]
                    name = "copy_A:" + fop[1]
                elif name == "third":
                    which = fop[1]
                    tm = dict(fop[2]) if len(fop) > 2 else {}
                    if which == "x":
                        third.append(sources.make_env(scnX, **tm))       # the SAME Scenario object as A'
                    elif which == "y":
                        third.append(sources.make_env(build_y(), **tm))
                    else:
                        import nasim
                        third.append(sources.make_env(nasim.load_scenario(sources.shipped_path(which)), **tm))
                    if len(third) > 2:
                        third.pop(0)
                else:
                    continue
                if i > 0:
                    foreign_between += 1
                if record:
                    rep.count("foreign:" + name)
                check_view(i, name)
            if case.get("action_objects") and kind == "step" and B[0] is not None and not isinstance(a, (int, list)) \
                    and usable_in(a, scnY):
                # B performs the very Action object A' is about to use
                np.random.seed(seed + 1)
                B[0].step(a)
                foreign_between += 1
                if record:
                    rep.count("foreign:step_B-with-A's-action-object")
                check_view(i, "B performs A's next Action object")
            if kind == "reset":
                o, _ = envA.reset()
                if np.asarray(o).tobytes() != ref_steps[i]["obs"]:
                    raise Failure("C19:reset", f"reset of A (operation {i}) returns a different observation when other environments exist")
            else:
                np.random.seed(seed)
                out = step_out(envA.step(a))
                k = first_diff(ref_steps[i], out)
                if k is not None:
                    raise Failure(f"C19:step:{k}", f"step {i} of A ({a}) gives a different {k} when other environments exist",
                                  bucket=f"C19:step:{k}")
            check_view(i + 1, "A's own operation")
        if specY is not None:
            different = layout_sig(specX) != layout_sig(specY)
            if record:
                rep.count("pair:" + ("same-scenario" if case["y"] == "same" else "different-layout" if different else "same-layout"))
            if different and foreign_between:
                rep.nontriv(case["x"], case["y"], case["schedule"])
        if record and len(rep.samples) < rep.max_samples and foreign_between:
            rep.sample(dict(x=case["x"]["kind"], y=(case["y"] if case["y"] == "same" else case["y"]["kind"]),
                            layout_x=layout_sig(specX), layout_y=layout_sig(specY) if specY else None,
                            n_ops=len(concrete), schedule=[s for s in sched if s][:6]))
    except walk.SourceRejected as e:
        if record:
            rep.count(f"source-rejected({e.owner})")
    except Failure as f:
        fail(f)
    except Exception as e:
        inside, where = engine.from_nasim(sys.exc_info()[2])
        if not inside:
            raise
        if stage == "setup":
            if record:
                rep.count("reference-run-raised(other property)")
            return failed
        fail(Failure("C19:exception", f"{type(e).__name__}: {e} at {where} while A' was interleaved with other environments",
                     bucket=f"C19:exception:{type(e).__name__}@{where}"))
    return failed


def usable_in(a, scn):
    """can the Action object be performed in an environment of scenario scn?  (its target is an address of
    scn and the names it refers to are defined there)"""
    if scn is None or tuple(a.target) not in [tuple(x) for x in scn.address_space]:
        return False
    if a.is_exploit():
        return a.service in scn.services and (a.os is None or a.os in scn.os)
    if a.is_privilege_escalation():
        return a.process in scn.processes and (a.os is None or a.os in scn.os)
    return True


def do_foreign(fop, state, build_y, scnX):
    """state: dict(B=env|None, third=[...])"""
    name = fop[0]
    if name == "construct_B":
        state["B"] = sources.make_env(build_y(), **dict(fop[1]))
    elif name == "reset_B" and state["B"] is not None:
        state["B"].reset()
    elif name == "step_B" and state["B"] is not None:
        b = state["B"]
        for j in range(fop[1]):
            np.random.seed(fop[2] + j)
            if hasattr(b.action_space, "n"):
                b.step(int((fop[2] * 7919 + j * 104729) % b.action_space.n))
            else:
                b.action_space.seed(fop[2] + j)
                b.step(b.action_space.sample())
    elif name == "drop_B":
        state["B"] = None
    elif name == "third":
        which = fop[1]
        tm = dict(fop[2]) if len(fop) > 2 else {}
        if which == "x" and scnX is not None:
            state["third"].append(sources.make_env(scnX, **tm))       # the SAME Scenario object
        elif which == "y" or which == "x":
            state["third"].append(sources.make_env(build_y(), **tm))
        else:
            import nasim
            state["third"].append(sources.make_env(nasim.load_scenario(sources.shipped_path(which)), **tm))
        state["third"] = state["third"][-2:]


def model_run(case, with_foreign, build_y=None):
    """Run the history of A on X against the reference model / documented
    layout (oracles of C01-C03, C05, C07-C09), optionally with the foreign
    operations of the case.  Returns the first Failure or None."""
    from . import oracles as O
    from .check_c09 import check_initial
    from .check_c11 import check_mask

    class _Null:
        def nontriv(self, *a):
            pass

        def count(self, *a, **k):
            pass
    null = _Null()
    fstate = dict(B=None, third=[])
    try:
        scnX = None
        if with_foreign:
            for fop in case.get("pre", []):
                do_foreign(fop if fop[0] != "third" else ("third", "y"), fstate, build_y, None)
        h = walk.build_harness(case["x"], {"flat_actions": bool((case.get("modes") or {}).get("flat_actions", True))})
        scnX = h.scn
        check_initial(h, h.scn, null)
        O.c03_reset(h, h.env.current_state.tensor, null, "initial state")
        O.c08_initial(h, h.initial_obs, h.initial_tensor, null, "construction")

        def on_rec(hh, rec, twin):
            for orc in (O.c01, O.c02, O.c03, O.c05, O.c07, O.c08):
                orc(hh, rec, twin, null)
        sched = case["schedule"]
        for i, op in enumerate(case["ops"]):
            if with_foreign:
                for fop in (sched[i] if i < len(sched) else []):
                    do_foreign(fop, fstate, build_y, scnX)
            if op[0] in ("g", "b"):
                continue
            res = walk.run_history(h, [tuple(op)], on_rec, None, both_sides=False, do_gen=False)
            if h.flat:
                check_mask(h, null, f"after {op}")
            if res == "diverged":
                return Failure("diverged", f"state diverges from the reference model: {h.diverged}", bucket="diverged")
    except walk.SourceRejected:
        return None
    except Failure as f:
        return f
    except Exception as e:
        inside, where = engine.from_nasim(sys.exc_info()[2])
        if not inside:
            raise
        return Failure("exception", f"{type(e).__name__}: {e} at {where}", bucket=f"exception:{type(e).__name__}@{where}")
    return None


def solo_worker(path):
    import json
    case = case_from_json(json.load(open(path)))
    f = model_run(case, with_foreign=False)
    print("SOLO-OK" if f is None else f"SOLO-FAIL {f.bucket}")


def solo_in_subprocess(case):
    import json, os, subprocess, tempfile
    fd, path = tempfile.mkstemp(prefix="nvf_c19_", suffix=".json", dir=os.environ.get("NVF_TMP") or None)
    with os.fdopen(fd, "w") as fh:
        json.dump(common.jsonable(case), fh)
    env = dict(os.environ, PYTHONPATH=f"{common.VERIF}:{common.REPO}", PYTHONDONTWRITEBYTECODE="1")
    try:
        r = subprocess.run([sys.executable, "-c", "import sys; from nvf import check_c19; check_c19.solo_worker(sys.argv[1])", path],
                           capture_output=True, text=True, env=env, timeout=600, cwd=common.VERIF)
    except subprocess.TimeoutExpired:
        return "TIMEOUT"
    finally:
        os.unlink(path)
    for line in r.stdout.splitlines():
        if line.startswith("SOLO-"):
            return line
    return "ERROR " + r.stderr[-300:]


def benchmark_seed_independence(rep):
    import nasim
    from .check_c14 import scenario_fingerprint
    from nasim.scenarios.benchmark import AVAIL_GEN_BENCHMARKS
    from .budget import BudgetExceeded, guarded_generate
    for name, b in AVAIL_GEN_BENCHMARKS.items():
        if b["num_hosts"] > 40:
            continue
        try:
            guarded_generate(lambda: nasim.make_benchmark_scenario(name, 5))
        except BudgetExceeded:
            rep.count("benchmark-generation-does-not-terminate(C15)")
            continue
        rep.evaluated()
        f1 = scenario_fingerprint(nasim.make_benchmark_scenario(name, 5))
        nasim.make_benchmark_scenario(name, 7)
        nasim.make_benchmark_scenario(name)
        env = nasim.make_benchmark(name, 11)
        f2 = scenario_fingerprint(nasim.make_benchmark_scenario(name, 5))
        rep.count("benchmark-seed-independence")
        if f1 != f2:
            rep.fail("C19:benchmark-params", f"make_benchmark_scenario('{name}', 5) differs after calls with other seeds", dict(name=name))
        # an unseeded call must not depend on the seed of an EARLIER call: same global stream, different history
        nasim.make_benchmark_scenario(name, 7)
        np.random.seed(123)
        g1 = scenario_fingerprint(nasim.make_benchmark_scenario(name))
        nasim.make_benchmark_scenario(name, 9)
        np.random.seed(123)
        g2 = scenario_fingerprint(nasim.make_benchmark_scenario(name))
        if g1 != g2:
            rep.fail("C19:benchmark-seed-leak", f"make_benchmark_scenario('{name}') without seed depends on the seed of an earlier call "
                     "(same global random state, different earlier call)", dict(name=name))


FOREIGN = st.one_of(
    st.tuples(st.just("construct_B"), st.fixed_dictionaries({"fully_obs": st.booleans(), "flat_actions": st.booleans(), "flat_obs": st.booleans()})),
    st.tuples(st.just("reset_B")),
    st.tuples(st.just("step_B"), st.integers(1, 4), st.integers(0, 10000)),
    st.tuples(st.just("drop_B")),
    st.tuples(st.just("copy_A"), st.sampled_from(["deepcopy", "pickle"]), st.integers(1, 4), st.integers(0, 10000)),
    st.tuples(st.just("third"), st.sampled_from(["x", "x", "y", "tiny", "small", "tiny-small"]),
              st.fixed_dictionaries({"fully_obs": st.booleans(), "flat_actions": st.booleans(), "flat_obs": st.booleans()})),
)


@st.composite
def cases(draw, tier):
    x = draw(engine.source_strategy(tier, dict(extras=True), weights=(10, 5, 5), gen_max_hosts=10))
    ky = draw(st.integers(0, 9))
    if ky <= 1:
        y = "same"
    elif x["kind"] == "doc" and ((4 <= ky <= 6 and max(len(x["doc"][k_]) for k_ in ("os", "services", "processes")) > 1)):
        # same address bounds and the same name SETS, declared in a different order
        import copy
        d = copy.deepcopy(x["doc"])
        multi = [sec for sec in ("os", "services", "processes") if len(d[sec]) > 1]
        keep = draw(st.lists(st.sampled_from(multi), max_size=len(multi) - 1, unique=True)) if len(multi) > 1 else []
        for sec in multi:
            if sec not in keep:
                d[sec] = list(reversed(d[sec]))
        y = {"kind": "doc", "doc": d, "flow": None}
    elif ky <= 6 and x["kind"] == "doc":
        # same vector layout, different content
        import copy
        d = copy.deepcopy(x["doc"])
        oss, srvs = d["os"], d["services"]
        for a, cfg in d["host_configurations"].items():
            cfg["os"] = oss[(oss.index(cfg["os"]) + 1) % len(oss)]
            keep = [s_ for s_ in srvs if s_ not in cfg["services"]] or list(cfg["services"])
            cfg["services"] = keep
            cfg["processes"] = [p_ for p_ in d["processes"] if p_ not in cfg["processes"]]
            if a not in d["sensitive_hosts"]:
                cfg["value"] = draw(st.sampled_from([0, 1, 3, -2]))
        y = {"kind": "doc", "doc": d, "flow": None}
    else:
        y = draw(engine.source_strategy(tier, dict(extras=True), weights=(10, 5, 5), gen_max_hosts=10))
    ops = draw(st.lists(engine.op_strategy(resets=True, gens=False), min_size=4, max_size=20))
    n = len(ops)
    sched = []
    for i in range(n):
        if draw(st.integers(0, 2)) == 0:
            k = draw(st.integers(1, 2))
            f = [draw(FOREIGN) for _ in range(k)]
            if not any(s and any(o[0] == "construct_B" for o in s) for s in sched) and draw(st.booleans()):
                f.insert(0, ("construct_B", {"fully_obs": False, "flat_actions": True, "flat_obs": True}))
            sched.append(f)
        else:
            sched.append([])
    modes = draw(st.fixed_dictionaries({"fully_obs": st.booleans(), "flat_obs": st.booleans(),
                                        "flat_actions": st.sampled_from([True, True, False])}))
    pre = []
    if draw(st.booleans()) or 4 <= ky <= 6:
        # (a pair that differs only in the declaration order matters when the OTHER one exists first)
        pre.append(("construct_B", {"fully_obs": False, "flat_actions": True, "flat_obs": True}))
        if draw(st.integers(0, 3)) == 0:
            pre.append(("third", "y"))
    action_objects = draw(st.integers(0, 3)) == 0
    if action_objects and not pre:
        pre.append(("construct_B", {"fully_obs": False, "flat_actions": True, "flat_obs": True}))
    return dict(x=x, y=y, ops=ops, schedule=sched, modes=modes, render=draw(st.integers(0, 2)) == 0, pre=pre,
                action_objects=action_objects)


class _Runner:
    def __init__(self, rep):
        self.rep = rep

    def run(self, case, record=True):
        return run_case(case, self.rep, record)


def _shard(shard, seed, tier, n_cases):
    rep = Reporter(PID, tier, RULE)
    engine.drive(_Runner(rep), cases(tier), n_cases, seed)
    return rep


def case_from_json(c):
    c = dict(c)
    c["x"] = engine.case_from_json(dict(source=c["x"], ops=[]))["source"]
    if c["y"] != "same":
        c["y"] = engine.case_from_json(dict(source=c["y"], ops=[]))["source"]
    c["ops"] = [tuple(o) for o in c["ops"]]
    c["schedule"] = [[tuple(f) for f in s] for s in c["schedule"]]
    c["pre"] = [tuple(f) for f in c.get("pre", [])]
    return c


def main(tier, replay=None):
    rep = Reporter(PID, tier, RULE, assumptions=[
        "interleavings are sequential (NASim has no threads); schedules are sampled, not enumerated",
        "decoding of another environment's arrays is read through that environment's own objects (State/Observation.get_readable, env.render_obs / env.render_state on arrays)",
        "the reference run of A alone happens in the same process before any foreign environment of the case is created"])
    if replay:
        import json
        j = json.load(open(replay))
        failed = run_case(case_from_json(j["case"]), rep)
        print(f"replay {replay}: failing buckets {sorted(failed)}")
        for b in rep.buckets.values():
            print("  ", str(b["detail"])[:600])
        if failed:
            print(f"VIOLATION property={PID} replay={replay}")
            return 1
        return 0
    # regression corpus: the repaired defect (tiny, then small built in between)
    base_ops = [("p", i, "lo", i) for i in range(6)]
    for xn, yn in (("tiny", "small"), ("small", "tiny"), ("tiny-small", "medium"), ("tiny", "tiny")):
        run_case(dict(x={"kind": "shipped", "name": xn}, y={"kind": "shipped", "name": yn}, ops=base_ops,
                      schedule=[[], [("construct_B", {"fully_obs": False, "flat_actions": True, "flat_obs": True})], [("step_B", 2, 3)],
                                [("third", "y")], [("reset_B",)], [("drop_B",)]], modes={}, render=True), rep)
    benchmark_seed_independence(rep)
    nshards = 16 if tier == "thorough" else 8
    total = 16 * 1500 if tier == "thorough" else 560
    for part in engine.run_shards(_shard, nshards, common.verif_seed(), tier=tier, n_cases=total // nshards):
        rep.merge(part)
    docs.cleanup()
    return rep.finish()
