"""Hypothesis strategy for scenario *documents* in the documented YAML format
(source S3 of DESIGN.md) and the YAML writer.

A document is a python-native dict with tuple keys for addresses and
connections; `dump()` renders it with the canonical "(a, b)" key spelling.
Two private keys are not part of the YAML format and are applied to the loaded
Scenario through its public objects (source S4):
  _discovery_values : {addr: value >= 0}      (Host.discovery_value)
  _bounds           : (subnets, hosts)        (address_space_bounds of dict scenarios)
  (_req_access {exploit name: level} is understood by the model but NOT generated: a req_access
   entry in an exploit definition is not part of the documented format - the unmodified
   parameterised action space itself drops it - see DESIGN.md section 9.5)
"""
import os
import tempfile

import yaml
from hypothesis import strategies as st

OS_POOL = ["linux", "windows", "bsd"]
SRV_POOL = ["ssh", "ftp", "http"]
PROC_POOL = ["tomcat", "daclsvc", "cron"]

PROBS = [0.5, 0.25, 0.9, 0.8, 1.0, 1, 0.5, 0.9, 1.0, 0, 0.0, 0.001, 0.999, 0.3333333333333333]
COSTS = [1, 2, 3, 0.5, 1.25, 10, 1, 1, 0.1, 1000, 1e-06, 33554433, 0.30000000000000004, 0.125, 1.375, 0.004]
SCAN_COSTS = [0, 1, 2, 0.5, 1, 1, 0.3, 0.1, 1e-06, 0.125, 0.004]
VALUES = [0, 1, -1, -100, 5, 0.5, 50, 0.125, 0.1, 16777217, -0.3]
SENS_VALUES = [100, 10, 1, 0.5, 1000, 100, 0.1, 123456.75, 5.2, 1.1, 2.7, 20000000, 0.3]


def _coin(draw, p):
    return draw(st.floats(0, 1, allow_nan=False)) < p


@st.composite
def wide_documents(draw, max_subnets=9, extras=True, many=0.1):
    """Second family: many small subnets on rings / lines / trees / random graphs
    with 1-3 public subnets and permissive content, so that histories reach
    hosts many hops away from the internet (topology-dependent behaviour)."""
    n = draw(st.integers(4, max_subnets))
    if draw(st.integers(0, 7)) == 0:
        n = draw(st.integers(11, 14))        # subnet ids beyond what a signed byte times the subnet count can hold
    sizes = [1] * n
    for _ in range(draw(st.integers(0, 2))):
        sizes[draw(st.integers(0, n - 1))] = 2
    N = n + 1
    topo = [[0] * N for _ in range(N)]
    for i in range(N):
        topo[i][i] = 1
    order = draw(st.permutations(list(range(1, N))))
    shape = draw(st.sampled_from(["ring", "line", "tree", "random", "line"]))

    def link(a, b):
        topo[a][b] = topo[b][a] = 1
    if shape in ("ring", "line"):
        for a, b in zip(order, order[1:]):
            link(a, b)
        if shape == "ring":
            link(order[-1], order[0])
    elif shape == "tree":
        for i in range(1, n):
            link(order[i], order[draw(st.integers(0, i - 1))])
    else:
        for i in range(1, n):
            link(order[i], order[draw(st.integers(0, i - 1))])
        for _ in range(draw(st.integers(1, 4))):
            a, b = draw(st.integers(1, n)), draw(st.integers(1, n))
            if a != b:
                link(a, b)
    if shape == "line":
        pubs = [order[0]] + ([order[-1]] if draw(st.booleans()) else [])
    else:
        k = draw(st.sampled_from([1, 1, 2, 3]))
        pubs = list(draw(st.lists(st.sampled_from(order), min_size=k, max_size=k, unique=True)))
    for p in pubs:
        link(0, p)
    two = draw(st.booleans())
    srvs = ["ssh", "ftp"] if two else ["ssh"]
    oss = ["linux", "windows"] if draw(st.booleans()) else ["linux"]
    procs = ["tomcat"]
    addrs = [(s + 1, h) for s in range(n) for h in range(sizes[s])]
    exploits = {"e_ssh": dict(service="ssh", os="none", prob=draw(st.sampled_from([1.0, 0.5, 0.8])), cost=1,
                              access=draw(st.sampled_from(["user", "root"])))}
    if two:
        exploits["e_ftp"] = dict(service="ftp", os=draw(st.sampled_from(oss + ["none"])), prob=0.9, cost=2, access="root")
    privescs = {"pe": dict(process="tomcat", os="none", prob=draw(st.sampled_from([1.0, 0.75])), cost=1, access="root")}
    hostcfg = {}
    for a in addrs:
        cfg = dict(os=draw(st.sampled_from(oss)), services=list(srvs) if _coin(draw, 0.85) else [draw(st.sampled_from(srvs))],
                   processes=["tomcat"] if _coin(draw, 0.8) else [])
        if _coin(draw, 0.1):
            near = [b for b in addrs if topo[b[0]][a[0]] == 1]
            if near:
                cfg["firewall"] = {draw(st.sampled_from(near)): [draw(st.sampled_from(srvs))]}
        if _coin(draw, 0.3):
            cfg["value"] = draw(st.sampled_from(VALUES))
        hostcfg[a] = cfg
    k = draw(st.integers(1, 3))
    sens_addrs = draw(st.lists(st.sampled_from(addrs), min_size=k, max_size=k, unique=True))
    sensitive = {a: draw(st.sampled_from(SENS_VALUES)) for a in sens_addrs}
    for a in sens_addrs:
        hostcfg[a].pop("value", None)
    firewall = {}
    for i in range(N):
        for j in range(N):
            if i != j and topo[i][j] == 1:
                firewall[(i, j)] = list(srvs) if _coin(draw, 0.85) else [s_ for s_ in srvs if _coin(draw, 0.5)]
    if _coin(draw, 0.25):
        order_h = draw(st.permutations(addrs))
        hostcfg = {a: hostcfg[a] for a in order_h}
    doc = dict(subnets=sizes, topology=topo, sensitive_hosts=sensitive, os=oss, services=srvs, processes=procs,
               exploits=exploits, privilege_escalation=privescs,
               service_scan_cost=draw(st.sampled_from(SCAN_COSTS)), os_scan_cost=1,
               subnet_scan_cost=draw(st.sampled_from(SCAN_COSTS)), process_scan_cost=1,
               host_configurations=hostcfg, firewall=firewall)
    if draw(st.booleans()):
        doc["step_limit"] = draw(st.integers(5, 60)) if _coin(draw, 0.8) else draw(st.sampled_from([200, 250, 601]))
    if extras and _coin(draw, 0.3):
        doc["_discovery_values"] = {a: draw(st.sampled_from(DISCOVERY_VALUES)) for a in addrs}
    return _finish(draw, doc, many)


DISCOVERY_VALUES = [0, 1, 2, 0.5, 5, 40, 1000]


@st.composite
def documents(draw, max_subnets=4, max_size=3, max_hosts=7, extras=True,
              deny_rich=False, wide=0.2, many=0.1):
    if wide and _coin(draw, wide):
        return draw(wide_documents(extras=extras, many=many))
    n = draw(st.integers(1, max_subnets))
    sizes = []
    for _ in range(n):
        room = max_hosts - sum(sizes) - (n - len(sizes) - 1)
        sizes.append(draw(st.integers(1, max(1, min(max_size, room)))))
    N = n + 1
    topo = [[0] * N for _ in range(N)]
    for i in range(N):
        topo[i][i] = 1
    # public subnets: usually one, sometimes several
    npub = 1 if _coin(draw, 0.6) else draw(st.integers(1, n))
    pubs = draw(st.lists(st.integers(1, n), min_size=npub, max_size=npub, unique=True))
    for p in pubs:
        topo[0][p] = topo[p][0] = 1
    # connect every other subnet to an already placed one (random tree), then
    # extra edges; a small share of documents keeps isolated subnets
    placed = list(pubs)
    rest = [s for s in range(1, N) if s not in pubs]
    isolate = _coin(draw, 0.08)
    for s in rest:
        if isolate and _coin(draw, 0.5):
            continue
        p = draw(st.sampled_from(placed))
        topo[s][p] = topo[p][s] = 1
        placed.append(s)
    for i in range(1, N):
        for j in range(i + 1, N):
            if topo[i][j] == 0 and _coin(draw, 0.2):
                topo[i][j] = topo[j][i] = 1
    nos = draw(st.integers(1, 3))
    nsrv = draw(st.integers(1, 3))
    nproc = draw(st.integers(1, 3))
    oss, srvs, procs = OS_POOL[:nos], SRV_POOL[:nsrv], PROC_POOL[:nproc]
    if _coin(draw, 0.2):
        # names that contain each other (matching must be by equality, not by substring / prefix)
        oss = ["windows_server", "windows", "win"][:nos]
        srvs = ["sftp", "ftp", "ftps"][:nsrv]
        procs = ["crond", "cron", "anacron"][:nproc]
    elif _coin(draw, 0.15):
        # unusual but valid strings (spaces, digits only, upper case, punctuation, non-ASCII)
        oss = ["Linux 5.4", "os-ω", "OS_2"][:nos]
        srvs = ["http/2", "80", "My Service"][:nsrv]
        procs = ["proc.exe", "p 1", "Über"][:nproc]
    if _coin(draw, 0.2):
        # names are arbitrary: the same name may denote a service and a process (or an OS)
        which = draw(st.integers(0, 2))
        if which == 0:
            procs = [srvs[0]] + procs[1:]
        elif which == 1:
            procs = procs[:-1] + [srvs[-1]]
        else:
            oss = oss[:-1] + [srvs[0]]
    addrs = [(s + 1, h) for s in range(n) for h in range(sizes[s])]
    q = draw(st.sampled_from([0.3, 0.7, 0.7, 1.0]))      # permissiveness
    probs = st.sampled_from(PROBS)
    costs = st.sampled_from(COSTS)
    exploits = {}
    for i in range(draw(st.integers(1, 4))):
        exploits[f"e_{i}"] = dict(
            service=draw(st.sampled_from(srvs)),
            os=draw(st.sampled_from(oss + ["None", "none"])),
            prob=draw(probs), cost=draw(costs),
            access=draw(st.sampled_from(["user", "root", 1, 2, "user"])))
    privescs = {}
    for i in range(draw(st.integers(0, 3))):
        privescs[f"pe_{i}"] = dict(
            process=draw(st.sampled_from(procs)),
            os=draw(st.sampled_from(oss + ["None", "none"])),
            prob=draw(probs), cost=draw(costs),
            access=draw(st.sampled_from(["root", 2, "root", "user", 1])))
    # now and then two definitions with identical content (distinct names are distinct actions)
    if _coin(draw, 0.15):
        src_name = draw(st.sampled_from(sorted(exploits)))
        exploits["e_dup"] = dict(exploits[src_name])
    if privescs and _coin(draw, 0.2):
        src_name = draw(st.sampled_from(sorted(privescs)))
        privescs["pe_dup"] = dict(privescs[src_name])
    # ... and two definitions for the same (service, OS) / (process, OS) that differ in cost, probability or access
    if _coin(draw, 0.2):
        src_name = draw(st.sampled_from(sorted(exploits)))
        exploits["e_alt"] = dict(exploits[src_name], cost=draw(costs), prob=draw(probs),
                                 access=draw(st.sampled_from(["user", "root"])))
    if privescs and _coin(draw, 0.15):
        src_name = draw(st.sampled_from(sorted(privescs)))
        privescs["pe_alt"] = dict(privescs[src_name], cost=draw(costs), prob=draw(probs))
    hostcfg = {}
    for a in addrs:
        services = [s for s in srvs if _coin(draw, q)]
        if not services:
            services = [draw(st.sampled_from(srvs))]
        cfg = dict(os=draw(st.sampled_from(oss)), services=services,
                   processes=[p for p in procs if _coin(draw, 0.6)])
        if _coin(draw, 0.6 if deny_rich else 0.35):
            fw = {}
            # sources: hosts of connected subnets - including the host itself (a valid address;
            # after it is compromised it is an attacker position like any other)
            near = [b for b in addrs if topo[b[0]][a[0]] == 1] or addrs
            nsrc = draw(st.integers(1, min(3, len(near))))
            chosen = list(draw(st.lists(st.sampled_from(near), min_size=nsrc,
                                        max_size=nsrc, unique=True)))
            if a not in chosen and _coin(draw, 0.3):
                chosen.append(a)            # the host denies a service to its own address
            for src in chosen:
                fw[src] = [s for s in srvs if _coin(draw, 0.6)]
            cfg["firewall"] = fw
        if _coin(draw, 0.4):
            cfg["value"] = draw(st.sampled_from(VALUES))
        hostcfg[a] = cfg
    nsens = draw(st.integers(1, min(3, len(addrs))))
    sens_addrs = draw(st.lists(st.sampled_from(addrs), min_size=nsens,
                               max_size=nsens, unique=True))
    sensitive = {a: draw(st.sampled_from(SENS_VALUES)) for a in sens_addrs}
    for a in sens_addrs:
        if "value" in hostcfg[a]:
            # documented: must match the sensitive value or be absent
            if draw(st.booleans()):
                hostcfg[a]["value"] = sensitive[a]
            else:
                del hostcfg[a]["value"]
    firewall = {}
    for i in range(N):
        for j in range(N):
            if i != j and topo[i][j] == 1:
                firewall[(i, j)] = [s for s in srvs if _coin(draw, q)]
    # constructive attackability: walk the subnets outwards from the public
    # ones and (usually) make one host per subnet exploitable through the rule
    # of the edge it was reached by.
    if _coin(draw, 0.85):
        seen = set(pubs)
        frontier = [(0, p) for p in pubs]
        while frontier:
            src, s = frontier.pop(0)
            if _coin(draw, 0.85):
                e = exploits[draw(st.sampled_from(sorted(exploits)))]
                h = (s, draw(st.integers(0, sizes[s - 1] - 1)))
                cfg = hostcfg[h]
                if e["service"] not in cfg["services"]:
                    cfg["services"].append(e["service"])
                if str(e["os"]).lower() != "none":
                    cfg["os"] = e["os"]
                if e["service"] not in firewall[(src, s)]:
                    firewall[(src, s)].append(e["service"])
                if e["prob"] in (0, 0.0):
                    e["prob"] = 0.5
            for t in range(1, N):
                if t not in seen and topo[s][t] == 1:
                    seen.add(t)
                    frontier.append((s, t))
    if _coin(draw, 0.2) and len(srvs) >= 2:
        # corner: a host that can be compromised through one service while a second
        # exploitable service of it is reachable from NO position once it is the only foothold -
        # the internet rule lacks it and the host denies it to its own address (and its subnet)
        t = draw(st.sampled_from([a for a in addrs if topo[a[0]][0] == 1] or addrs))
        ex = sorted(exploits)
        ey, exx = ex[0], ex[-1]
        if exploits[ey]["service"] == exploits[exx]["service"]:
            exploits[exx]["service"] = [s_ for s_ in srvs if s_ != exploits[ey]["service"]][0]
        y, x = exploits[ey]["service"], exploits[exx]["service"]
        cfg = hostcfg[t]
        for s_ in (x, y):
            if s_ not in cfg["services"]:
                cfg["services"].append(s_)
        for e in (exploits[ey], exploits[exx]):
            if str(e["os"]).lower() != "none":
                e["os"] = cfg["os"]
            if e["prob"] in (0, 0.0):
                e["prob"] = 0.5
        if (0, t[0]) in firewall:
            firewall[(0, t[0])] = [s_ for s_ in set(firewall[(0, t[0])]) | {y} if s_ != x]
        deny = cfg.setdefault("firewall", {})
        for b in addrs:
            if b[0] == t[0]:
                deny[b] = sorted(set(deny.get(b, [])) | {x})
    if _coin(draw, 0.06):
        # nobody runs a process and nothing escalates (both allowed): the process list is then only a declaration
        privescs = {}
        for cfg in hostcfg.values():
            cfg["processes"] = []
    if _coin(draw, 0.35):
        # the file may list the hosts in any order
        order = draw(st.permutations(addrs))
        hostcfg = {a: hostcfg[a] for a in order}
    doc = dict(
        subnets=sizes, topology=topo, sensitive_hosts=sensitive, os=oss,
        services=srvs, processes=procs, exploits=exploits,
        privilege_escalation=privescs,
        service_scan_cost=draw(st.sampled_from(SCAN_COSTS)),
        os_scan_cost=draw(st.sampled_from(SCAN_COSTS)),
        subnet_scan_cost=draw(st.sampled_from(SCAN_COSTS)),
        process_scan_cost=draw(st.sampled_from(SCAN_COSTS)),
        host_configurations=hostcfg, firewall=firewall)
    if draw(st.booleans()):
        doc["step_limit"] = draw(st.integers(1, 30)) if _coin(draw, 0.8) else draw(st.sampled_from([199, 200, 201, 333, 1000]))
    if extras:
        if _coin(draw, 0.35):
            doc["_discovery_values"] = {
                a: draw(st.sampled_from(DISCOVERY_VALUES)) for a in addrs}
        if _coin(draw, 0.25):
            doc["_bounds"] = (N + draw(st.integers(0, 3)),
                              max(sizes) + draw(st.integers(0, 3)))
            if _coin(draw, 0.12):
                # rows of more than a thousand columns (nothing in the format bounds the address space)
                doc["_bounds"] = (N + draw(st.integers(0, 2)), 1000 + draw(st.integers(1, 300)))
    return _finish(draw, doc, many)


ACTION_NAMES = ["service_scan", "os_scan", "subnet_scan", "process_scan", "noop", "exploit", "privilege_escalation",
                "scan", "cost", "none", "0", "Exploit 1", "x", "é/ü", "ssh", "tomcat", "e_ssh", "pe_tomcat", "linux"]


def _finish(draw, doc, many=0.1):
    """names of exploits / escalations are arbitrary strings (the format only asks for uniqueness within
    their section): now and then names that also occur elsewhere in the system's vocabulary - action types,
    services, an exploit and an escalation called the same; and the address keys of the file in another
    spelling of the same tuple"""
    if _coin(draw, 0.2):
        for sec in ("exploits", "privilege_escalation"):
            old = list(doc[sec])
            if not old:
                continue
            new = draw(st.lists(st.sampled_from(ACTION_NAMES), min_size=len(old), max_size=len(old), unique=True))
            keep = draw(st.lists(st.booleans(), min_size=len(old), max_size=len(old)))
            names = [o if k and o not in new else n for o, n, k in zip(old, new, keep)]
            if len(set(names)) == len(names):
                doc[sec] = {n: doc[sec][o] for o, n in zip(old, names)}
    if many and _coin(draw, many):
        # many services (the format puts no bound on the lists): 52-68 more names interleaved with the existing ones,
        # run by hosts, allowed / denied by rules, some of them exploitable
        k = draw(st.integers(52, 68))
        extra = [f"x{i:02d}" for i in range(k)]
        names = list(extra)
        for s_ in doc["services"]:
            names.insert(draw(st.integers(0, len(names))), s_)
        doc["services"] = names
        dense = draw(st.sampled_from([0.4, 0.8, 0.9]))
        for cfg in doc["host_configurations"].values():
            cfg["services"] = list(cfg["services"]) + [e for e in extra if _coin(draw, dense)]
            for src in cfg.get("firewall", {}):
                cfg["firewall"][src] = list(cfg["firewall"][src]) + [e for e in extra if _coin(draw, 0.1)]
        for rule in doc["firewall"]:
            doc["firewall"][rule] = list(doc["firewall"][rule]) + [e for e in extra if _coin(draw, 0.12)]
        oss = doc["os"]
        for i in range(draw(st.integers(10, 36))):
            doc["exploits"][f"ex_{i}"] = dict(service=draw(st.sampled_from(extra)), os=draw(st.sampled_from(oss + ["none"] * len(oss))),
                                              prob=draw(st.sampled_from([1.0, 0.5, 0.9])), cost=draw(st.sampled_from([1, 2, 0.5])),
                                              access=draw(st.sampled_from(["user", "root"])))
    if many and _coin(draw, many / 2):
        # many processes (more than services): 15-40 more names, run by hosts, some of them escalation targets
        k = draw(st.integers(15, 40))
        extra = [f"p{i:02d}" for i in range(k)]
        names = list(extra)
        for p_ in doc["processes"]:
            names.insert(draw(st.integers(0, len(names))), p_)
        doc["processes"] = names
        dense = draw(st.sampled_from([0.2, 0.5, 0.9]))
        for cfg in doc["host_configurations"].values():
            cfg["processes"] = list(cfg["processes"]) + [e for e in extra if _coin(draw, dense)]
        for i in range(draw(st.integers(2, 8))):
            doc["privilege_escalation"][f"px_{i}"] = dict(process=draw(st.sampled_from(extra)),
                                                          os=draw(st.sampled_from(doc["os"] + ["none"])),
                                                          prob=draw(st.sampled_from([1.0, 0.5, 0.9])), cost=draw(st.sampled_from([1, 2, 0.5])),
                                                          access=draw(st.sampled_from(["root", "root", "user"])))
    if _coin(draw, 0.15):
        # rules for traffic inside one subnet: allowed by the format (a subnet is connected to itself) and without
        # effect (traffic inside a subnet is always allowed); written before or after the required rules
        n_ = len(doc["subnets"])
        own = {(s_, s_): [x for x in doc["services"] if _coin(draw, 0.4)][:6]
               for s_ in range(1, n_ + 1) if _coin(draw, 0.5)}
        if own:
            doc["firewall"] = dict(list(own.items()) + list(doc["firewall"].items())) if _coin(draw, 0.5) \
                else dict(list(doc["firewall"].items()) + list(own.items()))
    if _coin(draw, 0.2):
        doc["_keyspell"] = draw(st.integers(1, 3))
    if _coin(draw, 0.2):
        # YAML anchors / aliases: equal sub-documents are written once and referred to (valid YAML; the
        # parser hands the loader ONE shared object for all of them).  Make equal host configurations likely.
        doc["_alias"] = True
        hc = doc["host_configurations"]
        addrs = list(hc)
        for _ in range(draw(st.integers(0, 2))):
            if len(addrs) < 2:
                break
            a, b = draw(st.lists(st.sampled_from(addrs), min_size=2, max_size=2, unique=True))
            c = {k: (list(v) if isinstance(v, list) else ({s_: list(l) for s_, l in v.items()} if isinstance(v, dict) else v))
                 for k, v in hc[a].items()}
            if "value" in c and (a in doc["sensitive_hosts"] or b in doc["sensitive_hosts"]):
                del c["value"]
                hc[a] = dict(c)
            hc[b] = c
    return doc


# ------------------------------------------------------------------ YAML I/O
_SPELL = [0]


def _k(t, vary=False):
    """file key of an address.  Only the sensitive_hosts keys and the source keys of host firewalls are
    written in other spellings of the same tuple: those the loader is observed to evaluate as Python
    tuples; host_configurations / firewall keys are matched as canonical '(a, b)' strings."""
    sp = _SPELL[0] if vary else 0
    if sp == 3:
        _SPELL.append(0)
        sp = len(_SPELL) % 3
    if sp == 1:
        return f"({t[0]},{t[1]})"
    if sp == 2:
        return f"( {t[0]} ,  {t[1]} )"
    return f"({t[0]}, {t[1]})"


def to_yaml_obj(doc):
    """tuple keys -> '(a, b)' strings as in the documented file format."""
    out = {k: v for k, v in doc.items() if not k.startswith("_")}
    _SPELL[:] = [doc.get("_keyspell", 0)]
    out["subnets"] = list(doc["subnets"])
    out["topology"] = [list(r) for r in doc["topology"]]
    out["sensitive_hosts"] = {_k(a, True): v for a, v in doc["sensitive_hosts"].items()}
    out["firewall"] = {_k(a): list(v) for a, v in doc["firewall"].items()}
    out["exploits"] = {k: dict(v) for k, v in doc["exploits"].items()}
    out["privilege_escalation"] = {k: dict(v) for k, v in doc["privilege_escalation"].items()}
    hc = {}
    for a, cfg in doc["host_configurations"].items():
        c = dict(cfg)
        c["services"] = list(c["services"])
        c["processes"] = list(c["processes"])
        c.pop("discovery_value", None)
        if "firewall" in c:
            c["firewall"] = {_k(s, True): list(v) for s, v in c["firewall"].items()}
        hc[_k(a)] = c
    out["host_configurations"] = hc
    if doc.get("_alias"):
        import json
        pool = {}

        def share(x):
            return pool.setdefault(json.dumps(x, sort_keys=True, default=str), x)
        for k in list(hc):
            if "firewall" in hc[k]:
                hc[k]["firewall"] = {a: share(v) for a, v in hc[k]["firewall"].items()}
            hc[k] = share(hc[k])
        out["firewall"] = {k: share(v) for k, v in out["firewall"].items()}
        for sec in ("exploits", "privilege_escalation"):
            out[sec] = {k: share(v) for k, v in out[sec].items()}
    return out


def dump(doc, path, flow=None, rotate=0):
    """rotate > 0 rotates the order of the top-level sections (the format does
    not prescribe one)"""
    obj = to_yaml_obj(doc)
    if rotate:
        keys = list(obj)
        k = rotate % len(keys)
        obj = {key: obj[key] for key in keys[k:] + keys[:k]}
    # non-ASCII names: half of the time written as they are (UTF-8 file), else as YAML escapes
    text = yaml.safe_dump(obj, sort_keys=False, default_flow_style=flow)
    if not text.isascii() or "\\x" in text or "\\u" in text:
        if (len(text) + len(obj.get("os", []))) % 2:
            text = yaml.safe_dump(obj, sort_keys=False, default_flow_style=flow, allow_unicode=True)
    with open(path, "w", encoding="utf-8") as f:
        f.write(text)


_TMP = {}


def tmpdir():
    """per-process scratch directory (forked shards must not share one)"""
    pid = os.getpid()
    d = _TMP.get(pid)
    if d is None or not os.path.isdir(d):
        d = _TMP[pid] = tempfile.mkdtemp(prefix="nvf_", dir=os.environ.get("NVF_TMP") or None)
    return d


def cleanup():
    import shutil
    d = _TMP.pop(os.getpid(), None)
    if d and os.path.isdir(d):
        shutil.rmtree(d, ignore_errors=True)


def doc_from_json(j):
    """Inverse of common.jsonable for documents (replay files)."""
    import ast

    def t(k):
        return tuple(ast.literal_eval(k)) if isinstance(k, str) else tuple(k)
    d = dict(j)
    d["sensitive_hosts"] = {t(k): v for k, v in j["sensitive_hosts"].items()}
    d["firewall"] = {t(k): list(v) for k, v in j["firewall"].items()}
    hc = {}
    for a, cfg in j["host_configurations"].items():
        c = dict(cfg)
        if "firewall" in c:
            c["firewall"] = {t(k): list(v) for k, v in c["firewall"].items()}
        hc[t(a)] = c
    d["host_configurations"] = hc
    if "_discovery_values" in j:
        d["_discovery_values"] = {t(k): v for k, v in j["_discovery_values"].items()}
    if "_bounds" in j:
        d["_bounds"] = tuple(j["_bounds"])
    return d
