"""C12 Observation and action modes do not change the dynamics: eight
environments of one scenario stepped in lock-step under the same seeds."""
import sys

import numpy as np

from . import common, docs, draws, engine, model as M, sources, walk
from .common import Failure, Reporter
from .oracles import canon_info

PID = "C12"
RULE = ("cases = scenario (S1-S4) x model-guided history; the 8 mode combinations (fully/partially observable x flat/"
        "parameterised actions x 1D/2D observations) run in lock-step with the same per-step seed, each abstract action rendered "
        "as flat index and as parameter vector (only actions expressible in both spaces: the first definition per (service, OS) / "
        "(process, OS)); after every step state tensors, rewards, flags and canonical info must be equal, observations may differ "
        "only by masking (fully observable rows == state) and shape (1D == flatten(2D)). Non-trivial = lock-step step that changes "
        "the state or fails by chance; distinct by (scenario, state, action, draw side).")

MODE_LIST = [dict(fully_obs=f, flat_actions=a, flat_obs=o)
             for f in (False, True) for a in (True, False) for o in (True, False)]
TYPE_IDX = {"exploit": 0, "privesc": 1, "service_scan": 2, "os_scan": 3, "subnet_scan": 4, "process_scan": 5}


def vector_of(spec, act):
    """documented parameter vector of an abstract action:
    [type, subnet-1, host, os (0 = None), service, process]"""
    v = [TYPE_IDX[act.kind], act.target[0] - 1, act.target[1], 0, 0, 0]
    if act.kind == "exploit":
        v[3] = 0 if act.os is None else 1 + spec.os.index(act.os)
        v[4] = spec.services.index(act.service)
    elif act.kind == "privesc":
        v[3] = 0 if act.os is None else 1 + spec.os.index(act.os)
        v[5] = spec.processes.index(act.process)
    return v


def expressible(spec):
    """keys of flat actions that the parameterised space can express (first
    definition per (service, OS) / (process, OS))"""
    first_e, first_p = {}, {}
    for n, d in spec.exploits.items():
        first_e.setdefault((d["service"], d["os"]), n)
    for n, d in spec.privescs.items():
        first_p.setdefault((d["process"], d["os"]), n)
    return {("exploit", n) for n in first_e.values()} | {("privesc", n) for n in first_p.values()}


def run_case(case, rep, record=True):
    failed = set()
    nops = 0

    def fail(f, upto):
        failed.add(f.bucket)
        if record:
            rep.fail(f.bucket, f.detail, dict(case, ops=list(case["ops"][:upto])))
    try:
        h = walk.build_harness(case["source"], MODE_LIST[0])
        spec = h.spec
        envs = [h.env] + [sources.make_env(h.scn, **m) for m in MODE_LIST[1:]]
        if case.get("foreign") and case["foreign"] != "sibling":
            import nasim
            foreign = sources.make_env(nasim.load_scenario(sources.shipped_path(case["foreign"])))
        ok_names = expressible(spec)
        if record:
            rep.evaluated()
            rep.count("source:" + case["source"]["kind"])
        n_hosts = len(spec.addrs)
        compare_reset([e.reset() for e in envs], envs, h, "initial reset")
        for op in case["ops"]:
            nops += 1
            if op[0] == "x":
                pre_mst = dict(h.mst)
                compare_reset([e.reset() for e in envs], envs, h, "reset")
                h.mst = spec.initial()
                # right after a reset: an action that passed in the abandoned state and is blocked now
                stale = [a for a in walk.stale_candidates(h, pre_mst)
                         if a.kind not in ("exploit", "privesc") or (a.kind, a.name) in ok_names]
                if not stale:
                    continue
                op = ("stale", "lo", nops)
                act_override = stale[nops % len(stale)]
            else:
                act_override = None
            if op[0] == "v":
                for e in envs:
                    h.env = e
                    try:
                        walk.do_query(h, op[1])
                    finally:
                        h.env = envs[0]
                if record:
                    rep.count("queries")
                continue
            if op[0] in ("g", "o", "b", "c"):
                continue
            act = act_override if act_override is not None else h.choose(op)
            if act.kind in ("exploit", "privesc") and (act.kind, act.name) not in ok_names:
                if record:
                    rep.count("skipped-not-expressible")
                continue
            side, seed, draw = h.pick_seed(act, op[-2], op[-1])
            vec = vector_of(spec, act)
            # the documented wrap-around: a host index beyond the subnet's size names host (index mod size)
            size, room = spec.subnets[act.target[0]], max(spec.subnets)
            k_alias = (nops + act.target[1]) % 3
            if k_alias and vec[2] + k_alias * size < room:
                vec[2] += k_alias * size
                if record:
                    rep.count("host-index-alias")
            idx = h.real_index[act.key()]
            outs = []
            for e, m in zip(envs, MODE_LIST):
                a = int(idx) if m["flat_actions"] else (list(vec) if (nops + idx) % 2 else np.array(vec))
                np.random.seed(seed)
                if nops % 4 == 1:
                    e.action_space.sample()     # the space's own generator: not part of the dynamics
                outs.append(e.step(a))
            ref = outs[0]
            ref_t = envs[0].current_state.tensor
            for e, m, out in zip(envs[1:], MODE_LIST[1:], outs[1:]):
                tag = "".join(f"{k[:7]}={int(v)} " for k, v in m.items())
                if e.current_state.tensor.tobytes() != ref_t.tobytes():
                    raise Failure("C12:state", f"{act}: state differs in mode {tag}", bucket=f"C12:state:{mode_tag(m)}")
                if float(out[1]) != float(ref[1]):
                    raise Failure("C12:reward", f"{act}: reward {out[1]} vs {ref[1]} in mode {tag}", bucket=f"C12:reward:{mode_tag(m)}")
                if bool(out[2]) != bool(ref[2]) or bool(out[3]) != bool(ref[3]):
                    raise Failure("C12:flags", f"{act}: done/limit {out[2]}/{out[3]} vs {ref[2]}/{ref[3]} in mode {tag}", bucket=f"C12:flags:{mode_tag(m)}")
                if canon_info(out[4]) != canon_info(ref[4]):
                    raise Failure("C12:info", f"{act}: info differs in mode {tag}", bucket=f"C12:info:{mode_tag(m)}")
                if e.steps != envs[0].steps:
                    raise Failure("C12:steps", f"{act}: step counter {e.steps} vs {envs[0].steps} in mode {tag}")
            compare_obs(outs, envs, n_hosts, h, str(act))
            pred = M.step(spec, h.mst, act, side)
            real = h.dyn(ref_t)
            if real != h.mst or (pred.chance and side == "hi" and not pred.gates):
                rep.nontriv(h.fp, M.state_key(h.mst), act.key(), side)
            if record:
                rep.count("lockstep-steps")
            h.mst = real
        if record and len(rep.samples) < rep.max_samples:
            rep.sample(dict(source=case["source"]["kind"], hosts=len(spec.addrs), n_ops=len(case["ops"]),
                            ops=[list(o) for o in case["ops"][:8]], final_compromised=[a for a, v in h.mst.items() if v[0]]))
    except walk.SourceRejected as e:
        if record:
            rep.count(f"source-rejected({e.owner})")
    except Failure as f:
        fail(f, nops)
    except Exception as e:
        inside, where = engine.from_nasim(sys.exc_info()[2])
        if not inside:
            raise
        fail(Failure("C12:exception", f"{type(e).__name__}: {e} at {where}",
                     bucket=f"C12:exception:{type(e).__name__}@{where}"), nops)
    return failed


def mode_tag(m):
    return ("F" if m["fully_obs"] else "P") + ("flat" if m["flat_actions"] else "param") + ("1D" if m["flat_obs"] else "2D")


def compare_obs(outs, envs, n_hosts, h, where):
    width = h.layout.width
    obs2d = [np.asarray(o[0]).reshape(n_hosts + 1, width) for o in outs]
    for e, m, o, raw in zip(envs, MODE_LIST, obs2d, outs):
        want_shape = ((n_hosts + 1) * width,) if m["flat_obs"] else (n_hosts + 1, width)
        if tuple(np.asarray(raw[0]).shape) != want_shape:
            raise Failure("C12:obs-shape", f"{where}: obs shape {np.asarray(raw[0]).shape} in mode {mode_tag(m)}")
        if m["fully_obs"] and not np.array_equal(o[:n_hosts], e.current_state.tensor):
            raise Failure("C12:full-obs", f"{where}: fully observable rows != state in mode {mode_tag(m)}")
    # same observability => same content whatever the action / observation shape mode
    for f in (False, True):
        group = [o for o, m in zip(obs2d, MODE_LIST) if m["fully_obs"] == f]
        for o in group[1:]:
            if not np.array_equal(o, group[0]):
                raise Failure("C12:obs-content", f"{where}: observation content differs between action/shape modes (fully_obs={f})")
    # aux rows agree across observability
    if not np.array_equal(obs2d[0][n_hosts], obs2d[-1][n_hosts]):
        raise Failure("C12:aux", f"{where}: auxiliary row differs between fully and partially observable mode")
    # partial = masked full: non-zero entries of the partial observation equal the full one
    p, fu = obs2d[0][:n_hosts], obs2d[-1][:n_hosts]
    nz = p != 0
    if not np.array_equal(p[nz], fu[nz]):
        raise Failure("C12:masking", f"{where}: partially observable entries are not a masked copy of the fully observable ones")


def compare_reset(outs, envs, h, where):
    n_hosts = len(h.spec.addrs)
    ref_t = envs[0].current_state.tensor
    for e, m in zip(envs, MODE_LIST):
        if e.current_state.tensor.tobytes() != ref_t.tobytes() or e.steps != 0:
            raise Failure("C12:reset-state", f"{where}: state / counter differs in mode {mode_tag(m)}")
    compare_obs([(o[0],) for o in outs], envs, n_hosts, h, where)


class _Runner:
    def __init__(self, rep):
        self.rep = rep

    def run(self, case, record=True):
        return run_case(case, self.rep, record)


def _shard(shard, seed, tier, n_cases):
    rep = Reporter(PID, tier, RULE)
    strat = engine.case_strategy(tier, dict(extras=True), weights=(12, 3, 5), min_ops=10, max_ops=50,
                                 resets=True, gens=False, queries=True, reset_weight=3)
    engine.drive(_Runner(rep), strat, n_cases, seed)
    return rep


def main(tier, replay=None):
    rep = Reporter(PID, tier, RULE, assumptions=[
        "semantically identical action = same (kind, target, service/process, OS); duplicate (service, OS) definitions are exercised only through their first definition, the only one the parameterised space can express",
        "the same random seed is installed before every lock-step step of every environment"])
    if replay:
        j, case = engine.load_replay(replay)
        failed = run_case(engine.case_from_json(case), rep)
        print(f"replay {replay}: failing buckets {sorted(failed)}")
        if failed:
            print(f"VIOLATION property={PID} replay={replay}")
            return 1
        return 0
    for name in sources.shipped_names():
        run_case(dict(source={"kind": "shipped", "name": name}, modes={},
                      ops=[("p", i * 7, "lo" if i % 3 else "hi", i) for i in range(30)]), rep)
        # two episodes: progress to the goal, reset, a little progress, then every near-miss class in turn
        run_case(dict(source={"kind": "shipped", "name": name}, modes={},
                      ops=[("p", 0, "lo", i) for i in range(28)] + [("x",)] + [("p", 0, "lo", i) for i in range(3)]
                      + [("n", k, j, "lo", 0) for j in range(4) for k in range(7)]), rep)
    nshards = 16 if tier == "thorough" else 8
    total = 16 * 2000 if tier == "thorough" else 800
    for p in engine.run_shards(_shard, nshards, common.verif_seed(), tier=tier, n_cases=total // nshards):
        rep.merge(p)
    runner = _Runner(Reporter(PID, tier, RULE))
    for bucket in list(rep.buckets):
        engine.minimise_bucket(runner, rep, bucket, budget=60)
    docs.cleanup()
    return rep.finish()
