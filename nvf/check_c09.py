"""C09 State and observation vectors follow the documented layout."""
import sys

import numpy as np
from hypothesis import strategies as st

from . import common, docs, draws, engine, model as M, oracles as O, sources, walk
from .common import Failure, Reporter
from .decode import Layout


class _Null:
    def nontriv(self, *a):
        pass

    def count(self, *a, **k):
        pass


_NULL = _Null()

PID = "C09"
RULE = ("cases = scenario (S1 shipped | S2 generated incl. custom larger address bounds | S3 random document | S4 document with "
        "discovery values / larger bounds) x short model-guided history; the initial state and every visited state/observation "
        "are decoded by the documented layout (computed from the scenario source only) and compared with the source / the "
        "reference model; 1D vs 2D environments run in lock-step; arrays are fed back through State.from_numpy / "
        "Observation.from_numpy / get_readable. Non-trivial = scenario with >=2 OS and >=2 services and >=2 processes, or "
        "custom bounds larger than the defaults; distinct by scenario fingerprint.")

READ_KEYS = ["Address", "Compromised", "Reachable", "Discovered", "Value", "Discovery Value", "Access"]


def f32(x):
    return float(np.float32(x))


def check_initial(h, scn, rep):
    spec, L = h.spec, h.layout
    env = h.env
    t = env.current_state.tensor
    if t.dtype != np.float32:
        raise Failure("C09:dtype", f"state dtype {t.dtype}")
    dims = tuple(int(x) for x in scn.get_state_dims())
    if tuple(t.shape) != dims or dims != (len(spec.addrs), L.width):
        raise Failure("C09:state-dims", f"tensor {t.shape}, get_state_dims() {dims}, documented {(len(spec.addrs), L.width)}")
    odims = tuple(int(x) for x in scn.get_observation_dims())
    if odims != (dims[0] + 1, dims[1]) or tuple(env.last_obs.tensor.shape) != odims:
        raise Failure("C09:obs-dims", f"get_observation_dims() {odims}, last_obs {env.last_obs.tensor.shape}")
    for addr, i in h.rowmap.items():
        row = L.decode_row(t[i])
        hs = spec.hosts[addr]
        pub = spec.public(addr[0])
        want = dict(address=addr, compromised=0.0, reachable=float(pub), discovered=float(pub),
                    value=f32(hs["value"]), discovery_value=f32(hs["dvalue"]), access=0.0,
                    os={o: float(o == hs["os"]) for o in spec.os},
                    services={s: float(s in hs["services"]) for s in spec.services},
                    processes={p: float(p in hs["processes"]) for p in spec.processes})
        if row != want:
            bad = {k: (row[k], want[k]) for k in want if row[k] != want[k]}
            raise Failure("C09:initial-decode", f"host {addr}: decoded by the documented layout {bad} (got, expected)",
                          bucket="C09:initial-decode:" + "+".join(sorted(bad)))
    # row order = scenario address space order
    order = [a for a, _ in sorted(h.rowmap.items(), key=lambda kv: kv[1])]
    if order != [tuple(a) for a in scn.address_space]:
        raise Failure("C09:row-order", f"rows {order} != scenario.address_space {list(scn.address_space)}")


def readable_expected(h, row):
    L = h.layout
    d = L.decode_row(row)
    sub = int(np.argmax(row[0:L.b0]))
    hst = int(np.argmax(row[L.b0:L.b0 + L.b1]))
    out = {"Address": (sub, hst), "Compromised": bool(d["compromised"]), "Reachable": bool(d["reachable"]),
           "Discovered": bool(d["discovered"]), "Value": d["value"], "Discovery Value": d["discovery_value"],
           "Access": d["access"]}
    for grp in ("os", "services", "processes"):
        for n, v in d[grp].items():
            out[n] = bool(v)
    return out


def norm_readable(r):
    out = {}
    for k, v in r.items():
        if k == "Address":
            out[k] = (int(v[0]), int(v[1]))
        elif isinstance(v, (bool, np.bool_)):
            out[str(k)] = bool(v)
        else:
            out[str(k)] = float(v)
    return out


def check_roundtrip(h, rep, where):
    from nasim.envs.state import State
    from nasim.envs.observation import Observation
    env = h.env
    t = env.current_state.tensor
    shape = tuple(t.shape)
    # State.from_numpy on the flat array
    flat = np.array(t, copy=True).flatten()
    s2 = State.from_numpy(flat, shape, env.current_state.host_num_map)
    if not np.array_equal(s2.tensor, t) or s2.tensor.shape != shape:
        raise Failure("C09:state-from-numpy", f"{where}: State.from_numpy(flat) does not reproduce the tensor")
    names = h.spec.os + h.spec.services + h.spec.processes
    unique_names = len(set(names)) == len(names)
    for label, rd in (("state.get_readable", env.current_state.get_readable()),
                      ("from_numpy.get_readable", s2.get_readable())):
        if len(rd) != shape[0]:
            raise Failure("C09:readable-len", f"{where}: {label} has {len(rd)} entries")
        for i, r in enumerate(rd):
            want = readable_expected(h, t[i])
            got = norm_readable(r)
            if unique_names and got != norm_readable(want):
                bad = {k: (got.get(k), norm_readable(want).get(k)) for k in set(got) | set(want) if got.get(k) != norm_readable(want).get(k)}
                raise Failure("C09:state-readable", f"{where}: {label} row {i}: {bad} (got, expected by documented layout)",
                              bucket="C09:state-readable")
    check_host_decoders(h, env.current_state, t, where + " state")
    check_host_decoders(h, s2, t, where + " State.from_numpy")
    # the address -> row map is a mapping: the order of its keys means nothing
    hm = env.current_state.host_num_map
    s4 = State.from_numpy(np.array(t, copy=True).flatten(), shape, dict(reversed(list(hm.items()))))
    check_host_decoders(h, s4, t, where + " State.from_numpy(reordered host_num_map)")
    for addr, hv in s4.hosts:
        if tuple(int(x) for x in hv.address) != tuple(addr):
            raise Failure("C09:state-hosts", f"{where}: State.hosts pairs address {tuple(addr)} with the row of host "
                          f"{tuple(int(x) for x in hv.address)} (host_num_map given in another key order)")
    # a state that went through pickle still reads by the documented layout (if states can be pickled at all); when a
    # sibling environment exists (same names in the opposite order) one of ITS states goes through pickle first
    import pickle
    try:
        if getattr(h, "sibling", None) is not None:
            pickle.loads(pickle.dumps(h.sibling.current_state))
        s3 = pickle.loads(pickle.dumps(env.current_state))
    except Exception:
        s3 = None
    if s3 is not None:
        if not np.array_equal(s3.tensor, t):
            raise Failure("C09:state-pickle", f"{where}: a pickled state does not reproduce the tensor")
        check_host_decoders(h, s3, t, where + " pickled state")
        rep.count("pickled-state-decoded")
    o = env.last_obs.tensor
    oflat = np.array(o, copy=True).flatten()
    o2 = Observation.from_numpy(oflat, shape)
    if not np.array_equal(o2.tensor, o):
        raise Failure("C09:obs-from-numpy", f"{where}: Observation.from_numpy(flat) does not reproduce the tensor")
    for label, (rows, aux) in (("last_obs.get_readable", env.last_obs.get_readable()),
                               ("from_numpy.get_readable", o2.get_readable())):
        want_aux = {"Success": bool(o[-1, 0]), "Connection Error": bool(o[-1, 1]),
                    "Permission Error": bool(o[-1, 2]), "Undefined Error": bool(o[-1, 3])}
        if {k: bool(v) for k, v in aux.items()} != want_aux:
            raise Failure("C09:obs-readable-aux", f"{where}: {label} aux {aux} expected {want_aux}")
        if len(rows) != shape[0]:
            raise Failure("C09:readable-len", f"{where}: {label} has {len(rows)} host entries")
        for i, r in enumerate(rows):
            want = norm_readable(readable_expected(h, o[i]))
            got = norm_readable(r)
            if unique_names and got != want:
                bad = {k: (got.get(k), want.get(k)) for k in set(got) | set(want) if got.get(k) != want.get(k)}
                raise Failure("C09:obs-readable", f"{where}: {label} row {i}: {bad}", bucket="C09:obs-readable")


def check_host_decoders(h, state, t, where):
    """per-host readable decoders of a state (State.get_host(...).<field>, is_running_*, State.host_*)
    against the documented-layout decoding of the same row - category by category, so a name shared
    by a service and a process is decided by its own block"""
    spec = h.spec
    for addr, i in h.rowmap.items():
        d = h.layout.decode_row(t[i])
        hv = state.get_host(addr)
        got = dict(address=tuple(int(x) for x in hv.address), compromised=float(bool(hv.compromised)), reachable=float(bool(hv.reachable)),
                   discovered=float(bool(hv.discovered)), value=float(hv.value), discovery_value=float(hv.discovery_value),
                   access=float(hv.access),
                   os={o: float(bool(hv.is_running_os(o))) for o in spec.os},
                   services={s_: float(bool(hv.is_running_service(s_))) for s_ in spec.services},
                   processes={p_: float(bool(hv.is_running_process(p_))) for p_ in spec.processes})
        if got != d:
            bad = {k: (got[k], d[k]) for k in d if got[k] != d[k]}
            raise Failure("C09:host-decoder", f"{where}: host {addr} decoders {bad} (got, row decoded by the documented layout)",
                          bucket="C09:host-decoder:" + "+".join(sorted(bad)))
        got2 = dict(os={k: float(bool(v)) for k, v in hv.os.items()}, services={k: float(bool(v)) for k, v in hv.services.items()},
                    processes={k: float(bool(v)) for k, v in hv.processes.items()})
        want2 = {k: d[k] for k in got2}
        if got2 != want2:
            raise Failure("C09:host-decoder-dicts", f"{where}: host {addr} os/services/processes dicts {got2} != {want2}")
        st_got = (bool(state.host_compromised(addr)), bool(state.host_reachable(addr)), bool(state.host_discovered(addr)),
                  tuple(bool(state.host_is_running_service(addr, s_)) for s_ in spec.services),
                  tuple(bool(state.host_is_running_os(addr, o)) for o in spec.os))
        st_want = (bool(d["compromised"]), bool(d["reachable"]), bool(d["discovered"]),
                   tuple(bool(d["services"][s_]) for s_ in spec.services), tuple(bool(d["os"][o]) for o in spec.os))
        if st_got != st_want:
            raise Failure("C09:state-decoder", f"{where}: host {addr} State.host_* queries {st_got} != {st_want}")


def run_case(case, rep, record=True):
    """returns set of failing buckets"""
    failed = set()

    def fail(f, upto):
        failed.add(f.bucket)
        if record:
            rep.fail(f.bucket, f.detail, dict(case, ops=list(case["ops"][:upto])))
    nops = 0
    try:
        fully = bool(case["modes"].get("fully_obs"))
        h = walk.build_harness(case["source"], dict(fully_obs=fully, flat_obs=True),
                               foreign="sibling" if case.get("foreign") == "sibling" else None)
        h2 = walk.Harness(h.spec, h.scn, dict(fully_obs=fully, flat_obs=False))
        h2.sibling = getattr(h, "sibling", None)
        # h2 was constructed last: the shared HostVector layout is that of this scenario
        if record:
            rep.evaluated()
            rep.count("source:" + case["source"]["kind"])
        spec = h.spec
        check_initial(h, h.scn, rep)
        check_initial(h2, h.scn, rep)
        custom = tuple(spec.bounds) != (len(spec.subnets), max(spec.subnets))
        if (len(spec.os) >= 2 and len(spec.services) >= 2 and len(spec.processes) >= 2) or custom:
            rep.nontriv(h.fp)
        if record:
            rep.count("custom-bounds" if custom else "default-bounds")
        check_roundtrip(h2, rep, "initial")
        if case.get("foreign") and case["foreign"] != "sibling":
            import nasim
            foreign = sources.make_env(nasim.load_scenario(sources.shipped_path(case["foreign"])))
        o1, _ = h.env.reset()
        o2, _ = h2.env.reset()
        compare_1d_2d(h, o1, o2, "reset")
        for op in case["ops"]:
            nops += 1
            if op[0] in ("x", "g", "b"):
                continue
            if op[0] == "o":
                act = M.Act("noop", (1, 0))
                rec = h.exec_step(act, "lo", 0)
                side = "lo"
            else:
                act = h.choose(op)
                side, seed, draw = h.pick_seed(act, op[-2], op[-1])
                rec = h.exec_step(act, op[-2], op[-1])
            out1 = rec.ret
            np.random.seed(rec.seed)
            out2 = h2.env.step(h2.real_action(act))
            compare_1d_2d(h, out1[0], out2[0], f"step {act}")
            # the observation rows must carry the entitled feature groups of the true state at the
            # documented columns (mask oracle of C08 evaluated with the documented layout)
            try:
                O.c08(h, rec, None, _NULL)
            except Failure as f:
                raise Failure("C09:observation-row-layout", f"observation after {act} is not the documented-layout "
                              f"mask of the state: {f.detail}", bucket="C09:observation-row-layout")
            # decoded dynamic part vs model, static part vs source
            pred = M.step(spec, h.mst, act, side)
            for hh in (h, h2):
                t = hh.env.current_state.tensor
                st = hh.dyn(t)
                if st != pred.state:
                    # owned by C01-C03 unless the layout is shifted: report only when static columns moved
                    pass
                if hh.layout.static_part(t).tobytes() != hh.static0:
                    raise Failure("C09:static-columns", f"after {act}: configuration columns differ from the initial decode")
            real = h.dyn(h.env.current_state.tensor)
            if real != pred.state:
                if record:
                    rep.count("diverged-not-owned")
                break
            aux = np.asarray(out2[0])[-1]
            info = out2[4]
            want_aux = [float(bool(info["success"])), float(bool(info["connection_error"])),
                        float(bool(info["permission_error"])), float(bool(info["undefined_error"]))]
            if list(aux[:4]) != want_aux or np.any(aux[4:] != 0):
                raise Failure("C09:aux-row", f"after {act}: last row {aux.tolist()} expected {want_aux} + zeros")
            h.mst = pred.state
            h2.mst = pred.state
            if record:
                rep.count("steps")
        if not case.get("foreign"):
            check_roundtrip(h2, rep, "after history")
        if record and len(rep.samples) < rep.max_samples:
            rep.sample(dict(source=case["source"]["kind"], bounds=spec.bounds, os=spec.os, services=spec.services,
                            processes=spec.processes, hosts=len(spec.addrs), width=h.layout.width, steps=nops))
    except walk.SourceRejected as e:
        if record:
            rep.count(f"source-rejected({e.owner})")
    except Failure as f:
        fail(f, nops)
    except Exception as e:
        inside, where = engine.from_nasim(sys.exc_info()[2])
        if not inside:
            raise
        fail(Failure("C09:exception", f"{type(e).__name__}: {e} at {where}",
                     bucket=f"C09:exception:{type(e).__name__}@{where}"), nops)
    return failed


def compare_1d_2d(h, o1, o2, where):
    o1, o2 = np.asarray(o1), np.asarray(o2)
    n = len(h.spec.addrs) + 1
    if o1.ndim != 1 or o2.ndim != 2 or o2.shape != (n, h.layout.width):
        raise Failure("C09:obs-shape", f"{where}: 1D obs shape {o1.shape}, 2D obs shape {o2.shape}")
    if not np.array_equal(o1, o2.flatten()):
        raise Failure("C09:flatten", f"{where}: 1D observation is not the row-major flattening of the 2D one")


class _Runner:
    def __init__(self, rep):
        self.rep = rep

    def run(self, case, record=True):
        return run_case(case, self.rep, record)


def _shard(shard, seed, tier, n_cases):
    rep = Reporter(PID, tier, RULE)
    strat = engine.case_strategy(tier, dict(extras=True), weights=(10, 3, 7), min_ops=4, max_ops=25,
                                 modes=st.fixed_dictionaries({"fully_obs": st.booleans()}),
                                 resets=False, gens=False)
    engine.drive(_Runner(rep), strat, n_cases, seed)
    return rep


def main(tier, replay=None):
    rep = Reporter(PID, tier, RULE, assumptions=[
        "the documented layout is the one in the HostVector / Observation class docstrings",
        "State.from_numpy / Observation.from_numpy are called in their documented 3-/2-argument form right after the environment was constructed",
        "readable decoders are compared only when OS / service / process names are pairwise distinct"])
    if replay:
        j, case = engine.load_replay(replay)
        failed = run_case(engine.case_from_json(case), rep)
        print(f"replay {replay}: failing buckets {sorted(failed)}")
        if failed:
            print(f"VIOLATION property={PID} replay={replay}")
            return 1
        return 0
    # all shipped scenarios once
    for name in sources.shipped_names():
        for fully in (False, True):
            run_case(dict(source={"kind": "shipped", "name": name}, modes={"fully_obs": fully},
                          ops=[("p", i, "lo", i) for i in range(12)]), rep)
    # unbalanced feature blocks (more OS than services, more processes than services, ...): every host scanned with
    # every scan type after it was compromised, partially and fully observable
    import copy
    from .check_c20 import STAR
    for oss, srvs, procs in ((["linux"], ["ssh"], ["tomcat", "cron", "daclsvc"]), (["a", "b", "c", "d"], ["ssh", "ftp"], ["tomcat"]),
                             (["linux", "bsd"], ["ssh", "ftp", "http", "smtp", "x"], ["tomcat", "cron"])):
        d = copy.deepcopy(STAR)
        d["os"], d["services"], d["processes"] = list(oss), list(srvs), list(procs)
        d["exploits"]["e"]["prob"] = 1.0
        for k_, cfg in enumerate(d["host_configurations"].values()):
            cfg["os"] = oss[k_ % len(oss)]
            cfg["services"] = ["ssh"] + [x for j_, x in enumerate(srvs[1:]) if (j_ + k_) % 2]
            cfg["processes"] = [x for j_, x in enumerate(procs) if (j_ + k_) % 2 == 0]
        spec_ = M.Spec.from_doc(d)
        acts_ = M.flat_actions(spec_)
        scans = [i for i, a in enumerate(acts_) if a.kind in M.SCANS]
        for fully in (False, True):
            run_case(dict(source={"kind": "doc", "doc": d, "flow": None}, modes={"fully_obs": fully},
                          ops=[("p", 0, "lo", i) for i in range(8)] + [("f", i, "lo", 0) for i in scans]), rep)
    nshards = 16 if tier == "thorough" else 8
    total = 16 * 3000 if tier == "thorough" else 640
    for p in engine.run_shards(_shard, nshards, common.verif_seed(), tier=tier, n_cases=total // nshards):
        rep.merge(p)
    runner = _Runner(Reporter(PID, tier, RULE))
    for bucket in list(rep.buckets):
        engine.minimise_bucket(runner, rep, bucket, budget=60)
    docs.cleanup()
    return rep.finish()
