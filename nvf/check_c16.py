"""C16 Generated and shipped scenarios are always solvable (witness replay)."""
import sys

import numpy as np
from hypothesis import HealthCheck, Phase, given, settings
import hypothesis

from . import common, draws, engine, model as M, sources, walk
from .common import Failure, Reporter

PID = "C16"
RULE = ("cases = generator parameter sets from the documented domain (as C15; up to 12 hosts quick / 60 thorough) and all shipped "
        "YAML benchmarks. Oracle = witness: a monotone fix-point over the reference model yields a plan, the plan is replayed on the "
        "real environment through step() with every draw forced to the success side and must end with done=True and "
        "goal_reached(); if the model finds no plan the verdict comes from the real environment alone (closure over all flat "
        "actions through generative_step). Non-trivial = witness that pivots through a firewall rule blocking at least one service "
        "and uses at least one privilege escalation to obtain ROOT; distinct by scenario fingerprint.")


_SEARCHES = [0]
_CASES = [0]


def model_plan(spec, acts, goal_directed=True):
    """Monotone fix-point: apply any action the model predicts to succeed and
    change the state (prob > 0) until the goal holds or nothing changes."""
    st = spec.initial()
    plan = []
    progress = True
    while progress and not spec.goal(st):
        progress = False
        for a in acts:
            if a.prob <= 0:
                continue
            p = M.step(spec, st, a, "lo")
            if p.success and p.state != st:
                plan.append(a)
                st = p.state
                progress = True
                if spec.goal(st):
                    break
    return plan, st


def prune_plan(spec, plan):
    """drop actions that are not needed for the goal (greedy, keeps validity)"""
    keep = list(plan)
    i = len(keep) - 1
    tries = 0
    while i >= 0 and tries < 400:
        cand = keep[:i] + keep[i + 1:]
        st = spec.initial()
        ok = True
        for a in cand:
            p = M.step(spec, st, a, "lo")
            if not p.success:
                ok = False
                break
            st = p.state
        tries += 1
        if ok and spec.goal(st):
            keep = cand
        i -= 1
    return keep


def replay(h, plan):
    env = h.env
    env.reset()
    done = False
    for a in plan:
        side, seed, draw = h.pick_seed(a, "lo", 0)
        if side != "lo":
            raise Failure("C16:harness", f"cannot force success of {a}")
        np.random.seed(seed)
        obs, rew, done, trunc, info = env.step(h.real_action(a))
        if not info["success"]:
            return False, f"{a} failed on the real environment: { {k: info[k] for k in ('connection_error', 'permission_error', 'undefined_error')} }"
    if env.goal_reached() and not done:
        # every action of the plan succeeded and the goal query confirms the final state - the last clause of the
        # property is about the flag step() returns
        raise Failure("C16:terminal-flag", f"the replayed sequence ({len(plan)} actions, all successful) ends in a state with "
                      f"goal_reached() == True but step() returned terminated={done} (step limit {env.scenario.step_limit}, {env.steps} steps)")
    if not done or not env.goal_reached():
        return False, f"plan executed but done={done}, goal_reached={env.goal_reached()}"
    return True, ""


def real_closure(h):
    env = h.env
    env.reset()
    state = env.current_state
    changed = True
    steps = 0
    rounds = 0
    while changed and not env.goal_reached(state):
        rounds += 1
        if rounds > 4 * len(h.spec.addrs) + 20:
            # a monotone closure needs at most one round per (host, access level); an environment whose state keeps
            # changing without getting anywhere is not solved by it
            break
        changed = False
        for i, a in enumerate(h.real_actions):
            if a.prob <= 0:
                continue
            r = draws.seed_for(float(a.prob), "lo", 0) if a.prob < 1 else (0, 0)
            if r is None:
                continue
            np.random.seed(r[0])
            ns, obs, rew, done, info = env.generative_step(state, a)
            steps += 1
            if ns.tensor.tobytes() != state.tensor.tobytes():
                state = ns
                changed = True
                if done:
                    break
    return bool(env.goal_reached(state)), steps


def real_search(h, cap=2500):
    """Order-independent verdict: breadth-first search over the REAL environment
    (generative_step, draws forced to succeed, every flat action).  Returns
    (goal_found, complete, states)."""
    env = h.env
    env.reset()
    start = env.current_state
    seen = {start.tensor.tobytes()}
    queue = [start]
    seeds = []
    for a in h.real_actions:
        if a.prob <= 0:
            seeds.append(None)
        else:
            r = draws.seed_for(float(a.prob), "lo", 0) if a.prob < 1 else (0, 0)
            seeds.append(None if r is None else r[0])
    while queue:
        state = queue.pop(0)
        for a, sd in zip(h.real_actions, seeds):
            if sd is None:
                continue
            np.random.seed(sd)
            ns, obs, rew, done, info = env.generative_step(state, a)
            k = ns.tensor.tobytes()
            if k in seen:
                continue
            if done or env.goal_reached(ns):
                return True, True, len(seen)
            if len(seen) >= cap:
                return False, False, len(seen)
            seen.add(k)
            queue.append(ns)
    return False, True, len(seen)


def nontrivial(spec, plan):
    st = spec.initial()
    pivot = esc = False
    nsrv = len(spec.services)
    for a in plan:
        if a.kind == "exploit" and not spec.public(a.target[0]):
            inet, sub_ok, full_ok = M.positions(spec, st, a)
            if any(p[0] != a.target[0] and len(spec.firewall.get((p[0], a.target[0]), ())) < nsrv for p in full_ok):
                pivot = True
        if a.kind == "privesc" and st[a.target][1] < M.ROOT <= a.grant:
            esc = True
        st = M.step(spec, st, a, "lo").state
    return pivot and esc, pivot, esc


def run_source(source, rep, record=True):
    failed = set()
    if record:
        rep.evaluated()
    try:
        try:
            h = walk.build_harness(source, {})
        except Failure:
            raise
        except Exception as e:
            inside, where = engine.from_nasim(sys.exc_info()[2])
            if not inside:
                raise
            if source["kind"] == "gen" and where.startswith("generator.py"):
                # generator failure: owned by C15
                if record:
                    rep.count("generator-raised(C15)")
                return failed
            raise Failure("C16:exception", f"{type(e).__name__}: {e} at {where}",
                          bucket=f"C16:exception:{type(e).__name__}@{where}")
        spec = h.spec
        _CASES[0] += 1
        if _CASES[0] % 3 == 0:
            # every third scenario has company: another environment (other layout) is created after it and kept alive
            import nasim
            h.foreign = sources.make_env(nasim.load_scenario(sources.shipped_path("small" if _CASES[0] % 2 else "tiny-small")))
            if record:
                rep.count("foreign-environment-alive")
        plan, st = model_plan(spec, h.acts)
        verdict = None
        if spec.goal(st):
            plan = prune_plan(spec, plan)
            ok, why = replay(h, plan)
            if ok:
                verdict = "witness"
                full, piv, esc = nontrivial(spec, plan)
                if full:
                    rep.nontriv(h.fp)
                if record:
                    rep.count("witness-replayed")
                    rep.count(f"plan-pivot={int(piv)}-escalation={int(esc)}")
                    rep.extra["max_plan_len"] = max(rep.extra.get("max_plan_len", 0), len(plan))
            elif record:
                rep.count("model-plan-failed-on-real-env")
                rep.extra.setdefault("model_plan_failures", []).append(why[:200])
        if verdict is None:
            solved, steps = real_closure(h)
            if record:
                rep.count("real-closure-used")
            if not solved:
                # the closure assumes that the order of actions does not matter; confirm with a search
                _SEARCHES[0] += 1
                if _SEARCHES[0] > 6:
                    if record:
                        rep.count("unconfirmed-unsolvable(search budget of this shard used up)")
                    return failed
                found, complete, nstates = real_search(h)
                if record:
                    rep.count("real-search-used")
                if found:
                    solved = True
                    if record:
                        rep.count("solvable-only-in-a-particular-order(other property)")
                elif not complete:
                    solved = True
                    if record:
                        rep.count("inconclusive:search-capped")
                        rep.inconclusive.append(f"{source}: real search capped at {nstates} states")
            if not solved:
                raise Failure("C16:unsolvable", f"no action sequence reaches the goal: model fix-point reached goal={spec.goal(st)}, "
                              f"closure of the real environment over all flat actions ({steps} generative steps, draws forced to "
                              f"succeed) does not reach the goal; sensitive hosts {list(spec.sensitive)}")
        if record:
            rep.count("source:" + source["kind"])
            if len(rep.samples) < rep.max_samples:
                rep.sample(dict(source=source, hosts=len(spec.addrs), plan=[repr(a) for a in plan][:25], verdict=verdict or "closure"))
    except walk.SourceRejected as e:
        if record:
            rep.count(f"source-rejected({e.owner})")
    except Failure as f:
        failed.add(f.bucket)
        if record:
            rep.fail(f.bucket, f.detail, dict(source=source))
    except Exception as e:
        # the environment raised while the witness was replayed / searched for
        inside, where = engine.from_nasim(sys.exc_info()[2])
        if not inside:
            raise
        b = f"C16:exception:{type(e).__name__}@{where}"
        failed.add(b)
        if record:
            rep.fail(b, f"{type(e).__name__}: {e} at {where} while the witness sequence was replayed on the real environment", dict(source=source))
    return failed


def _shard(shard, seed, tier, n_cases):
    rep = Reporter(PID, tier, RULE)
    strat = engine.weighted([
        (8, sources.gen_params(max_hosts=60 if tier == "thorough" else 12, max_services=14 if tier == "thorough" else 12)),
        (1, sources.gen_params_many_features()),
        (1, sources.gen_params_large()),
        (1, sources.gen_params_near_capacity())])

    @hypothesis.seed(seed)
    @settings(max_examples=n_cases, deadline=None, database=None, phases=[Phase.generate],
              suppress_health_check=list(HealthCheck))
    @given(p=strat)
    def t(p):
        run_source({"kind": "gen", "params": p}, rep)
    t()
    return rep


def main(tier, replay=None):
    rep = Reporter(PID, tier, RULE, assumptions=[
        "a violation needs a real-environment verdict: the model only proposes plans; when its plan fails or it finds none the closure of the real environment decides",
        "generator parameter sets on which generation itself fails are owned by C15 and only counted here"])
    if replay:
        import json
        j = json.load(open(replay))
        src = engine.case_from_json(dict(source=j["case"]["source"], ops=[]))["source"]
        failed = run_source(src, rep)
        print(f"replay {replay}: failing buckets {sorted(failed)}")
        if failed:
            print(f"VIOLATION property={PID} replay={replay}")
            return 1
        return 0
    for name in sources.shipped_names():
        run_source({"kind": "shipped", "name": name}, rep)
    from nasim.scenarios.benchmark import AVAIL_GEN_BENCHMARKS
    for name, b in AVAIL_GEN_BENCHMARKS.items():
        if tier == "thorough" or b["num_hosts"] <= 40:
            q = {k: v for k, v in b.items() if k not in ("max_score", "file")}
            for s in ((0, 1, 2) if tier == "thorough" else (0,)):
                run_source({"kind": "gen", "params": dict(q, seed=s)}, rep)
    grid = 0
    for H in range(3, 9 if tier == "quick" else 13):
        for S in (1, 2, 3):
            for O in (1, 2, 3):
                for uniform in (False, True):
                    for sd in (0, 1):
                        run_source({"kind": "gen", "params": dict(num_hosts=H, num_services=S, num_os=O, num_processes=2, uniform=uniform,
                                                                  restrictiveness=1 + (H + S + O) % 3, seed=sd)}, rep)
                        grid += 1
    rep.extra["exhaustive_grid_parameter_sets"] = grid
    nshards = 16 if tier == "thorough" else 8
    total = 16 * 2500 if tier == "thorough" else 4000
    for part in engine.run_shards(_shard, nshards, common.verif_seed(), tier=tier, n_cases=total // nshards):
        rep.merge(part)
    return rep.finish()
