"""Dynamics checks C01-C08 and C13: model-guided histories + exhaustive
enumeration of the small shipped scenarios, one oracle set per property."""
import glob
import json
import os
import time

import numpy as np
from hypothesis import strategies as st

from . import common, docs, draws, engine, model as M, oracles as O, sources, walk
from .common import Failure, Reporter


ACT_MODES_LAZY = st.fixed_dictionaries({"flat_actions": st.sampled_from([True, True, False]),
                                        "render_mode": st.sampled_from([None, None, None, "human", "ansi"])})


class Chk:
    def __init__(self, pid, rule, on_rec, on_start=None, on_reset=None, on_end=None,
                 both_sides=True, do_gen=True, modes=None, doc_kw=None,
                 weights=(14, 3, 3), quick=1200, thorough=1500, exhaustive=True,
                 assumptions=(), resets=True, gens=True):
        self.pid, self.rule = pid, rule
        self.on_rec, self.on_start, self.on_reset, self.on_end = on_rec, on_start, on_reset, on_end
        self.both_sides, self.do_gen = both_sides, do_gen
        self.modes, self.doc_kw, self.weights = (modes if modes is not None else ACT_MODES_LAZY), doc_kw, weights
        self.obs_modes = modes is not None
        self.quick, self.thorough = quick, thorough
        self.exhaustive = exhaustive
        self.assumptions = list(assumptions)
        self.resets, self.gens = resets, gens
        # C04-C06 judge the real transitions (monotonicity, ledger, flags); they keep walking when the
        # real state leaves the model's prediction (a defect owned by another property) - later
        # consequences (access lowered -> value paid twice) are theirs
        self.continue_on_divergence = pid in ("C04", "C05", "C06")


GEN_RULE = ("cases = (scenario source S1 shipped YAML | S2 generate_scenario(params) | S3 random document via "
            "load_scenario | S4 document + discovery values / custom bounds) x model-guided op list "
            "(progress / adaptive near-miss / flat / repeat / no-op / reset / generative step on a saved state), "
            "every action executed as generative_step (both draw sides when 0<p<1) and as step under a "
            "seeded draw; plus exhaustive enumeration of all reachable states x all flat actions x both draw "
            "sides of the tiny* (thorough: small*) shipped scenarios. ")

ASSUME_COMMON = [
    "NumPy's global RandomState is the only entropy source of the dynamics (self-tested at start-up: the seeded draw must be steerable)",
    "the exact boundary draw == prob is outside the generated domain",
    "row -> host mapping is learnt from the one-hot address columns of the initial state tensor (documented layout)",
]


def _c03_start(h, rep):
    O.c03_reset(h, h.env.current_state.tensor, rep, "initial state")


def _c03_reset(h, obs, info, rep):
    O.c03_reset(h, h.env.current_state.tensor, rep, "state after reset")


def _c04_rec(h, rec, twin, rep):
    O.c04(h, rec, twin, rep)
    if rec.mode == "step" and any(v[0] is True for v in rec.post.values()):
        h.had_progress = True


def _c04_reset2(h, obs, info, rep):
    O.c04_reset(h, obs, rep)
    if getattr(h, "had_progress", False):
        rep.nontriv("reset-after-progress", h.fp, h.env.steps, len(h.saved), rep.counters.get("resets", 0))
        rep.count("C04:reset-after-progress")
        h.had_progress = False


def _c06_start(h, rep):
    want = h.spec.goal(h.spec.initial())
    if bool(h.env.goal_reached()) is not want:
        raise Failure("C06:goal-query-initial", f"goal_reached() on the initial state = {h.env.goal_reached()}")


def _c06_end(h, rep):
    O.c06_saved(h, rep)


def _c06_reset(h, obs, info, rep):
    if h.env.steps != 0:
        raise Failure("C06:reset-counter", f"steps={h.env.steps} after reset")


def _c13_start(h, rep):
    h.probe_saved = True


def _c08_start(h, rep):
    O.c08_initial(h, h.initial_obs, h.initial_tensor, rep, "construction")


def _c08_reset(h, obs, info, rep):
    O.c08_initial(h, h.obs2d(obs), h.env.current_state.tensor, rep, "reset")


OBS_MODES = st.fixed_dictionaries({"fully_obs": st.booleans(), "flat_obs": st.booleans(), "flat_actions": st.sampled_from([True, True, False]),
                                   "render_mode": st.sampled_from([None, None, None, "human", "ansi"])})
ACT_MODES = st.fixed_dictionaries({"flat_actions": st.sampled_from([True, True, False])})

CHECKS = {
    "C01": Chk("C01", GEN_RULE + "Non-trivial = exploit/escalation whose failing-gate set is empty, a single host-level "
               "gate (service / OS / process) or the escalation access gate; distinct by (scenario, state, action, draw side).",
               O.c01, assumptions=ASSUME_COMMON),
    "C02": Chk("C02", GEN_RULE + "Non-trivial = action blocked by exactly one network-level gate (discovery, pivot, subnet rule, "
               "host deny-list, target access) or an exploit that passes while at least one attacker position is blocked; "
               "distinct by (scenario, state, action, draw side).",
               O.c02, doc_kw=dict(deny_rich=True, many=0.3), assumptions=ASSUME_COMMON + [
                   "the error flag reported for a blocked action is not constrained (the statement does not name it)"]),
    "C03": Chk("C03", GEN_RULE + "Non-trivial = visited state with a compromised host in a non-public subnet, or a subnet scan "
               "that newly discovers a host; distinct by (scenario, state[, action]).",
               O.c03, on_start=_c03_start, on_reset=_c03_reset, doc_kw=dict(wide=0.4), assumptions=ASSUME_COMMON),
    "C04": Chk("C04", GEN_RULE + "Non-trivial = reset after at least one host was compromised, or a USER-granting exploit "
               "re-run on a ROOT host; distinct by (scenario, position in history).",
               _c04_rec, on_reset=_c04_reset2, assumptions=ASSUME_COMMON),
    "C05": Chk("C05", GEN_RULE + "Costs are taken from the scenario source. Non-trivial = step that pays a non-zero value, or a "
               "successful repeat on a host whose value was already paid; distinct by (scenario, state, action, draw side).",
               O.c05, assumptions=ASSUME_COMMON + ["float32 arithmetic: rewards/values compared with tolerance 1e-5*scale"]),
    "C06": Chk("C06", GEN_RULE + "Non-trivial = state with a sensitive host at USER access or all-but-one at ROOT, or a step "
               "whose count is within 1 of the step limit; distinct by (scenario, state) / (scenario, limit, count, state, action). "
               "Entry points: every registered Gymnasium id (quick: two mode variants per benchmark), nasim.make_benchmark, nasim.load and "
               "nasim.generate(step_limit=...) environments are stepped with scans through the object the constructor returns "
               "(for gymnasium.make the wrapper chain) for a full episode up to the scenario's limit + 4 and a second episode after reset.",
               O.c06, on_start=_c06_start, on_end=_c06_end, on_reset=_c06_reset, assumptions=ASSUME_COMMON),
    "C07": Chk("C07", GEN_RULE + "Non-trivial = execution where chance decides (0<p<1, all preconditions hold), p in {0,1} "
               "with an adverse draw, or a re-exploit with a high draw; distinct by (scenario, state, action, draw side). "
               "Frequency phase (draw NOT intercepted): the global stream is seeded once per job and left alone over 400 (thorough 1500) "
               "episodes in four reset idioms (reset(); reset(seed=k) once then reset(); reset(seed=episode); reset(options={})); successes "
               "of gate-free 0<p<1 exploits must lie within 6 sigma of the stated probabilities, overall, per position after the reset "
               "and for generative steps.",
               O.c07, assumptions=ASSUME_COMMON + [
                   "for host-configuration failures only success/state/value must be chance-independent, not the reported flag (DESIGN.md section 5)",
                   "<= 1 uniform draw per step, not 'exactly when'"]),
    "C08": Chk("C08", GEN_RULE + "Fully and partially observable, 1D and 2D environments. Non-trivial = successful non-no-op "
               "execution in partially observable mode; distinct by (scenario, state, action, draw side).",
               O.c08, on_start=_c08_start, on_reset=_c08_reset, modes=OBS_MODES, assumptions=ASSUME_COMMON + [
                   "the per-action entitlement table is the one documented in State.get_observation (discovery value only for newly discovered hosts)"]),
    "C13": Chk("C13", GEN_RULE + "Generative ops on earlier state objects are bracketed by probe actions (remote actions on non-public "
               "hosts, single-gate near-misses) whose results on that same object must not change. Non-trivial = state-changing "
               "generative step, or a generative step on a saved (non-current) state; distinct by (scenario, state, action, draw side).",
               O.c13, on_start=_c13_start, assumptions=ASSUME_COMMON),
}

EXH_QUICK = ["tiny", "tiny-hard", "tiny-small"]
EXH_THOROUGH = EXH_QUICK + ["small", "small-honeypot", "small-linear"]


def exhaustive(chk, rep, name, modes, cap=20000):
    """BFS over all reachable states of a scenario (shipped name or a source
    dict) via generative_step: every flat action x both draw sides in every state."""
    source = name if isinstance(name, dict) else {"kind": "shipped", "name": name}
    h = walk.build_harness(source, modes)
    if chk.on_start:
        chk.on_start(h, rep)
    start = h.env.current_state.copy()
    queue = [(start, h.spec.initial(), [])]
    seen = {start.tensor.tobytes()}
    states = transitions = 0
    complete = True
    noop = M.Act("noop", (1, 0))
    while queue:
        state, mst, path = queue.pop(0)
        states += 1
        for i, act in enumerate(list(h.acts) + [noop]):
            sides = ["lo", "hi"] if 0.0 < act.prob < 1.0 else ["lo"]
            first = None
            for side in sides:
                op = ("f", i, side, 0) if act.kind != "noop" else ("o",)
                try:
                    rec = h.exec_gen(state, mst, act, side, 0, opname="alt" if first is not None else "gen")
                    transitions += 1
                    chk.on_rec(h, rec, first, rep)
                except Failure as f:
                    rep.fail(f.bucket, f.detail, dict(source=source, modes=modes, ops=path + [op]))
                    continue
                except Exception as e:
                    import sys
                    inside, where = engine.from_nasim(sys.exc_info()[2])
                    if not inside:
                        raise
                    rep.fail(f"{chk.pid}:exception:{type(e).__name__}@{where}", f"{type(e).__name__}: {e} at {where}",
                             dict(source=source, modes=modes, ops=path + [op]))
                    continue
                if first is None:
                    first = rec
                key = rec.post_t.tobytes()
                if key not in seen and rec.post == rec.pred.state:
                    if len(seen) >= cap:
                        complete = False
                        continue
                    seen.add(key)
                    queue.append((rec.ret[0].copy(), dict(rec.post), path + [op]))
    return states, transitions, complete


def _explore_shard(shard, seed, pid, tier, n_cases):
    chk = CHECKS[pid]
    rep = Reporter(pid, tier, chk.rule)
    runner = engine.CaseRunner(chk, rep)
    strat = engine.case_strategy(tier, chk.doc_kw, chk.weights, modes=chk.modes,
                                 resets=chk.resets, gens=chk.gens, burn=pid in ("C06", "C13"), custom=True, queries=True)
    engine.drive(runner, strat, n_cases, seed)
    return rep


def _exh_shard(shard, seed, pid, tier, names, modes_list):
    chk = CHECKS[pid]
    rep = Reporter(pid, tier, chk.rule)
    name = names[shard]
    tot = dict(states=0, transitions=0)
    ok = True
    import sys
    for modes in modes_list:
        case0 = dict(source={"kind": "shipped", "name": name}, modes=modes, ops=[])
        try:
            s, t, complete = exhaustive(chk, rep, name, modes)
        except Failure as f:
            rep.fail(f.bucket, f.detail, case0)
            continue
        except Exception as e:
            inside, where = engine.from_nasim(sys.exc_info()[2])
            if not inside:
                raise
            rep.fail(f"{pid}:exception:{type(e).__name__}@{where}", f"{type(e).__name__}: {e} at {where}", case0)
            continue
        tot["states"] += s
        tot["transitions"] += t
        ok = ok and complete
    rep.extra["exhaustive_states"] = tot["states"]
    rep.extra["exhaustive_transitions"] = tot["transitions"]
    rep.extra["exhaustive_scenarios"] = [f"{name}: {tot['states']} states, {tot['transitions']} transitions, complete={ok}"]
    rep.evaluations += 1
    return rep


def _exh_docs_shard(shard, seed, pid, tier, n_docs, cap):
    """thorough tier: exhaustive enumeration of random small documents"""
    import hypothesis
    from hypothesis import HealthCheck, Phase, given, settings
    chk = CHECKS[pid]
    rep = Reporter(pid, tier, chk.rule)
    tot = dict(states=0, transitions=0, complete=0, capped=0)

    @hypothesis.seed(seed)
    @settings(max_examples=n_docs, deadline=None, database=None, phases=[Phase.generate], suppress_health_check=list(HealthCheck))
    @given(doc=docs.documents(max_subnets=3, max_size=2, max_hosts=5, wide=0.15))
    def t(doc):
        src = {"kind": "doc", "doc": doc}
        modes = {} if not chk.obs_modes else {"fully_obs": False, "flat_obs": True}
        try:
            s_, t_, complete = exhaustive(chk, rep, src, modes, cap=cap)
        except walk.SourceRejected:
            return
        except Failure as f:
            rep.fail(f.bucket, f.detail, dict(source=src, modes=modes, ops=[]))
            return
        tot["states"] += s_
        tot["transitions"] += t_
        tot["complete" if complete else "capped"] += 1
    t()
    rep.extra["exhaustive_states"] = tot["states"]
    rep.extra["exhaustive_transitions"] = tot["transitions"]
    rep.extra["exhaustive_documents_complete"] = tot["complete"]
    rep.extra["exhaustive_documents_capped"] = tot["capped"]
    rep.evaluations += tot["complete"] + tot["capped"]
    return rep


def _c06_entry_shard(shard, seed, pid, tier, jobs):
    """C06 through every documented way of obtaining an environment: the flags are those of the
    object the user steps - for gymnasium.make() that is the wrapper chain Gymnasium builds from
    the registration.  One full episode of harmless scans up to the scenario's step limit and a
    few steps beyond, then a reset and a second, short episode."""
    import warnings
    import gymnasium as gym
    import nasim
    rep = Reporter(pid, tier, CHECKS[pid].rule)
    mine = [j for i, j in enumerate(jobs) if i % _ENTRY_SHARDS == shard]
    for job in mine:
        how, arg, modes = job
        case0 = dict(entry_point=how, arg=arg, modes=modes)
        try:
            with warnings.catch_warnings():
                warnings.simplefilter("ignore")
                if how == "gym.make":
                    env = gym.make(arg)
                elif how == "make_benchmark":
                    env = nasim.make_benchmark(arg, 3, **modes)
                elif how == "load":
                    env = nasim.load(sources.shipped_path(arg), **modes)
                else:
                    env = nasim.generate(**dict(arg, **modes))
            base = env.unwrapped
            lim = base.scenario.step_limit
            flat = hasattr(base.action_space, "n")
            if flat:
                scans = [i for i in range(base.action_space.n) if not (base.action_space.get_action(i).is_exploit()
                         or base.action_space.get_action(i).is_privilege_escalation())][:7]
            else:
                scans = [[2, 0, 0, 0, 0, 0], [3, 0, 0, 0, 0, 0], [5, 0, 0, 0, 0, 0], [4, 0, 0, 0, 0, 0]]
            for episode, extent in ((0, (lim or (2100 if isinstance(arg, dict) and arg.get("name") else 1500)) + 4), (1, 6)):
                env.reset(seed=episode) if episode == 0 else env.reset()
                for n in range(1, extent + 1):
                    a = scans[n % len(scans)]
                    out = env.step(a if flat else list(a))
                    want = lim is not None and n >= lim
                    if bool(out[3]) is not want:
                        raise Failure("C06:step-limit-entry", f"{how}({arg!r}): episode {episode}, after {n} step() calls since reset the "
                                      f"step-limit flag is {out[3]}, scenario step limit {lim} (env.steps={base.steps})",
                                      bucket=f"C06:step-limit-entry:{how}")
                    if bool(out[2]):
                        raise Failure("C06:done-entry", f"{how}({arg!r}): scans only, yet terminal after {n} steps", bucket=f"C06:done-entry:{how}")
                    if lim is not None and abs(n - lim) <= 1:
                        rep.nontriv("entry-limit", how, str(arg), str(sorted(modes.items())), n - lim, episode)
                rep.count("C06:entry-episodes")
            rep.count("C06:entry:" + how)
            rep.evaluated()
        except Failure as f:
            rep.fail(f.bucket, f.detail, case0)
        except Exception as e:
            import sys
            inside, where = engine.from_nasim(sys.exc_info()[2])
            if not inside:
                raise
            rep.fail(f"{pid}:exception:{type(e).__name__}@{where}", f"{type(e).__name__}: {e} at {where} ({how} {arg!r})", case0)
    return rep


_ENTRY_SHARDS = 8


def c06_entry_jobs(tier):
    from nasim.scenarios.benchmark import AVAIL_BENCHMARKS, AVAIL_STATIC_BENCHMARKS
    jobs = []
    variants = [(po, d2, va) for po in ("", "PO") for d2 in ("", "2D") for va in ("", "VA")]
    for k, b in enumerate(AVAIL_BENCHMARKS):
        camel = "".join(g.capitalize() for g in b.split("-"))
        pick = variants if tier == "thorough" else [variants[k % 8], variants[(3 * k + 5) % 8]]
        for po, d2, va in pick:
            jobs.append(("gym.make", f"{camel}{po}{d2}{va}-v0", {}))
        jobs.append(("make_benchmark", b, dict(flat_actions=bool(k % 2))))
        if b in AVAIL_STATIC_BENCHMARKS:
            jobs.append(("load", b, dict(fully_obs=bool(k % 2))))
    for lim in (1, 2, 7, 1001, 2500, None):
        p = dict(num_hosts=5 + (lim or 0) % 4, num_services=2, seed=lim or 0)
        if lim is not None:
            p["step_limit"] = lim
        jobs.append(("generate", p, {}))
    # no step limit, but called like a benchmark (a user's own tiny.yaml / name="tiny"): never truncated
    jobs.append(("generate", dict(num_hosts=5, num_services=2, seed=3, name="tiny"), {}))
    jobs.append(("generate", dict(num_hosts=6, num_services=3, seed=4, name="medium"), {"flat_actions": False}))
    return jobs


def c07_freq_jobs(tier):
    from .check_c20 import STAR
    import copy
    srcs = [{"kind": "shipped", "name": n} for n in ("tiny", "tiny-hard", "small", "medium")]
    for pr in (0.1, 0.3, 0.5, 0.9):
        d = copy.deepcopy(STAR)
        d["exploits"]["e"]["prob"] = pr
        srcs.append({"kind": "doc", "doc": d})
    srcs.append({"kind": "gen", "params": dict(num_hosts=6, num_services=3, exploit_probs="mixed", seed=1)})
    srcs.append({"kind": "gen", "params": dict(num_hosts=8, num_services=2, exploit_probs=0.35, seed=5)})
    jobs = []
    for i, src in enumerate(srcs):
        for idiom in ("reset()", "reset(seed=k) once, then reset()", "reset(seed=episode)", "reset(options={})"):
            jobs.append(dict(freq_job=len(jobs), source=src, idiom=idiom, modes={"flat_actions": bool((i + len(jobs)) % 3)},
                             episodes=1500 if tier == "thorough" else 400))
    return jobs


def _c07_freq_shard(shard, seed, pid, tier, jobs):
    """C07 where the draw is NOT intercepted: the global stream is seeded once per job and then left
    alone over many episodes in the reset idioms Gymnasium documents; the success frequency of
    gate-free actions with 0 < p < 1 must be compatible with p (6-sigma binomial bound) - overall, per
    position after the reset and for generative steps.  A deterministic function of VERIF_SEED."""
    rep = Reporter(pid, tier, CHECKS[pid].rule)
    for job in jobs:
        if job is None or job["freq_job"] % _ENTRY_SHARDS != shard:
            continue
        try:
            try:
                h = walk.build_harness(job["source"], job["modes"])
            except walk.SourceRejected:
                continue
            spec, env = h.spec, h.env
            init = spec.initial()
            cands = [a for a in h.acts if a.kind == "exploit" and 0.0 < a.prob < 1.0 and not M.step(spec, init, a, "lo").gates]
            if not cands:
                rep.count("C07:freq-job-without-chance-action")
                continue
            np.random.seed(job.get("np_seed", common.mix_seed(seed, "c07freq", job["freq_job"]) % 2**32))
            buckets = {}

            def note(b, p, ok):
                x = buckets.setdefault(b, [0, 0.0, 0.0])
                x[0] += 1
                x[1] += (1.0 if ok else 0.0) - p
                x[2] += p * (1 - p)
            for ep in range(job["episodes"]):
                idiom = job["idiom"]
                if idiom == "reset()":
                    env.reset()
                elif idiom.startswith("reset(seed=k)"):
                    env.reset(seed=2024) if ep == 0 else env.reset()
                elif idiom == "reset(seed=episode)":
                    env.reset(seed=ep)
                else:
                    env.reset(options={})
                owned = set()
                for pos in range(3):
                    free = [a for a in cands if a.target not in owned]
                    if not free:
                        break
                    act = free[(ep * 3 + pos) % len(free)]
                    out = env.step(h.real_action(act))
                    ok = bool(out[4]["success"])
                    note(f"position {pos + 1} after reset", act.prob, ok)
                    note("all steps", act.prob, ok)
                    if ok:
                        owned.add(act.target)
                    if out[2]:
                        break
                if ep % 4 == 0:
                    act = cands[ep % len(cands)]
                    ns, o_, r_, d_, info = env.generative_step(env.current_state, h.real_actions[h.real_index[act.key()]]) \
                        if act.target not in owned else (None, None, None, None, None)
                    if info is not None:
                        note("generative steps", act.prob, bool(info["success"]))
            # the same (state, action) sampled generatively many times in a row, nothing else in between
            env.reset()
            act = cands[job["freq_job"] % len(cands)]
            real = h.real_actions[h.real_index[act.key()]]
            for _ in range(job["episodes"]):
                ns, o_, r_, d_, info = env.generative_step(env.current_state, real)
                note("consecutive generative steps", act.prob, bool(info["success"]))
            for b, (n, dev, var) in sorted(buckets.items()):
                if n < 60:
                    continue
                z = dev / max(var, 1e-9) ** 0.5
                rep.nontriv("freq", job["freq_job"], b)
                rep.count("C07:frequency-buckets")
                rep.count("C07:frequency-steps", n)
                if abs(dev) > 6.0 * var ** 0.5 + 1.0:
                    raise Failure("C07:frequency", f"{job['source'].get('name') or job['source']['kind']}, {job['idiom']}: {b}: {n} chance-decided "
                                  f"executions, successes deviate from the stated probabilities by {dev:+.1f} (z = {z:+.1f}, bound 6 sigma): "
                                  f"the outcome is not an independent uniform draw compared with the action's probability",
                                  bucket="C07:frequency:" + b.split()[0])
            rep.evaluated()
        except Failure as f:
            rep.fail(f.bucket, f.detail, dict(job, np_seed=common.mix_seed(seed, "c07freq", job["freq_job"]) % 2**32))
        except Exception as e:
            import sys
            inside, where = engine.from_nasim(sys.exc_info()[2])
            if not inside:
                raise
            rep.fail(f"{pid}:exception:{type(e).__name__}@{where}", f"{type(e).__name__}: {e} at {where} (frequency job)", dict(job))
    return rep


def topology_corpus():
    """canonical subnet graphs (one host per subnet, one prob-1 ROOT exploit) x scripted walks: depth-first all the
    way, breadth-first, and mixed with subnet scans - behaviour that depends on the SHAPE of the network
    (rings walked one way round, lines with two public ends, hubs) is exercised in every run, not only when
    random histories happen to penetrate that deep"""
    from .check_c20 import tight_doc
    ring = lambda n: [(0, 1)] + [(k, k + 1) for k in range(1, n)] + [(n, 1)]
    line2 = lambda n: [(0, 1), (0, n)] + [(k, k + 1) for k in range(1, n)]
    shapes = [
        ("ring-6", ring(6), 6, {(4, 0): 10}), ("ring-8", ring(8), 8, {(5, 0): 10, (8, 0): 10}),
        ("line-5-two-public", line2(5), 5, {(3, 0): 10}), ("line-7-two-public", line2(7), 7, {(4, 0): 10}),
        ("chain-6", [(0, 1)] + [(k, k + 1) for k in range(1, 6)], 6, {(6, 0): 10}),
        ("star-6", [(0, 1)] + [(1, k) for k in range(2, 7)], 6, {(5, 0): 10, (6, 0): 10}),
        ("two-rings", ring(5) + [(3, 6), (6, 7), (7, 8), (8, 3)], 8, {(7, 0): 10}),
        ("tree-depth-3", [(0, 1), (1, 2), (1, 3), (2, 4), (2, 5), (3, 6), (3, 7)], 7, {(4, 0): 10, (7, 0): 10}),
        ("chain-13", [(0, 1)] + [(k, k + 1) for k in range(1, 13)], 13, {(13, 0): 10}),
        ("ring-13", ring(13), 13, {(7, 0): 10}),
    ]
    walks = {
        "depth-first": [("d", 3 * i + 1, "lo", i) for i in range(40)],
        "breadth-first": [("p", 5 * i, "lo", i) for i in range(40)],
        "reverse": [("p", 10 ** 6 - 7 * i, "lo", i) if i % 3 else ("d", 10 ** 6 - i, "lo", i) for i in range(40)],
        "with-resets": [("d", i, "lo", i) if i % 13 else ("x",) for i in range(1, 50)],
    }
    for name, edges, n, sens in shapes:
        doc = tight_doc(edges, n, sens)
        for wname, ops in walks.items():
            yield f"{name}/{wname}", dict(source={"kind": "doc", "doc": doc, "flow": None}, modes={}, ops=ops)
        if n >= 13:
            # the long ones also through the parameterised space (vectors in every spelling)
            for wname in ("depth-first", "reverse"):
                yield f"{name}/{wname}/parameterised", dict(source={"kind": "doc", "doc": doc, "flow": None},
                                                             modes={"flat_actions": False}, ops=walks[wname] + walks[wname])


def run_corpus(chk, rep):
    if chk.pid in ("C02", "C03", "C04", "C08", "C13"):
        n = 0
        for name, case in topology_corpus():
            engine.CaseRunner(chk, rep).run(case)
            n += 1
        rep.extra["topology_corpus_cases"] = n
    n = 0
    for path in sorted(glob.glob(os.path.join(common.CORPUS_DIR, chk.pid, "*.json"))):
        j, case = engine.load_replay(path)
        case = engine.case_from_json(case)
        engine.CaseRunner(chk, rep).run(case)
        n += 1
    rep.extra["corpus_cases"] = n


def main(pid, tier, replay=None):
    chk = CHECKS[pid]
    seed = common.verif_seed()
    rep = Reporter(pid, tier, chk.rule, assumptions=chk.assumptions)
    if not draws.selftest():
        print("HARNESS: the random draw cannot be steered through np.random.seed")
        return 2
    if replay:
        j, case = engine.load_replay(replay)
        if "freq_job" in case:
            case = engine.case_from_json(case)
            part = _c07_freq_shard(case["freq_job"] % _ENTRY_SHARDS, seed, pid, tier, [case])
            failed = set(part.buckets)
            rep.merge(part)
        elif "entry_point" in case:
            part = _c06_entry_shard(0, seed, pid, tier, [(case["entry_point"], case["arg"], case.get("modes", {}))] + [None] * (_ENTRY_SHARDS - 1))
            failed = set(part.buckets)
            rep.merge(part)
        else:
            case = engine.case_from_json(case)
            failed = engine.CaseRunner(chk, rep).run(case)
        print(f"replay {replay}: failing buckets {sorted(failed)}")
        for b in rep.buckets.values():
            print("  ", str(b["detail"])[:800])
        if failed:
            print(f"VIOLATION property={pid} replay={replay}")
            return 1
        return 0
    run_corpus(chk, rep)
    # exhaustive enumerations (one process per scenario)
    if chk.exhaustive:
        names = EXH_THOROUGH if tier == "thorough" else EXH_QUICK
        modes_list = [{}]
        if chk.obs_modes:
            modes_list = [{"fully_obs": False, "flat_obs": True}, {"fully_obs": True, "flat_obs": False}]
        parts = engine.run_shards(_exh_shard, len(names), seed, pid=pid, tier=tier,
                                  names=names, modes_list=modes_list)
        for p in parts:
            rep.merge(p)
        if tier == "thorough":
            for p in engine.run_shards(_exh_docs_shard, 16, common.mix_seed(seed, "exhdocs"), pid=pid, tier=tier, n_docs=13, cap=1200):
                rep.merge(p)
        rep.extra["states"] = rep.extra.get("exhaustive_states", 0)
        rep.extra["transitions"] = rep.extra.get("exhaustive_transitions", 0)
    if pid == "C06":
        jobs = c06_entry_jobs(tier)
        for p in engine.run_shards(_c06_entry_shard, _ENTRY_SHARDS, seed, pid=pid, tier=tier, jobs=jobs):
            rep.merge(p)
        rep.extra["entry_point_environments"] = len(jobs)
    if pid == "C07":
        jobs = c07_freq_jobs(tier)
        for p in engine.run_shards(_c07_freq_shard, _ENTRY_SHARDS, seed, pid=pid, tier=tier, jobs=jobs):
            rep.merge(p)
        rep.extra["frequency_jobs"] = len(jobs)
    nshards = 16 if tier == "thorough" else 8
    total = chk.thorough * 16 if tier == "thorough" else chk.quick
    per = max(1, total // nshards)
    parts = engine.run_shards(_explore_shard, nshards, seed, pid=pid, tier=tier, n_cases=per)
    for p in parts:
        rep.merge(p)
    # minimise the first case of every bucket (ops only)
    runner = engine.CaseRunner(chk, Reporter(pid, tier, chk.rule))
    for bucket in list(rep.buckets):
        engine.minimise_bucket(runner, rep, bucket)
    docs.cleanup()
    return rep.finish()
