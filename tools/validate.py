#!/usr/bin/env python3
"""Validate MANIFEST.json and evidence/*.json against the schemas (run with python3-vt, which has jsonschema)."""
import glob, json, sys, os
import jsonschema
here = os.path.dirname(os.path.dirname(os.path.abspath(__file__)))
ok = True
ms = json.load(open("/root/.vp/MANIFEST.schema.json"))
es = json.load(open("/root/.vp/EVIDENCE.schema.json"))
try:
    jsonschema.validate(json.load(open(os.path.join(here, "MANIFEST.json"))), ms); print("MANIFEST ok")
except Exception as e:
    ok = False; print("MANIFEST INVALID", str(e)[:500])
for p in sorted(glob.glob(os.path.join(here, "evidence", "*.json"))):
    try:
        jsonschema.validate(json.load(open(p)), es); print(os.path.basename(p), "ok")
    except Exception as e:
        ok = False; print(os.path.basename(p), "INVALID", str(e)[:300])
sys.exit(0 if ok else 1)
