#!/bin/bash
# tools/mutants_batch.sh <list-file> [parallel]   lines: <mutant-name> <ID> [<ID>...]; patches in $MUT_DIR (default /root/work/mut)
list="$1"; par="${2:-4}"; dir="${MUT_DIR:-/root/work/mut}"
grep -v '^#' "$list" | grep . | xargs -P "$par" -L 1 bash -c '/verif/tools/mutant.sh "$0" "'$dir'/$0.diff" -- "$@"' 
