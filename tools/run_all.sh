#!/bin/bash
# tools/run_all.sh [quick|thorough]   runs every registered check on /repo and prints one line each
tier=${1:-quick}
cd "$(dirname "$0")/.."
for i in 01 02 03 04 05 06 07 08 09 10 11 12 13 14 15 16 17 18 19 20; do
  start=$(date +%s); out=$(./check C$i --tier $tier 2>&1); rc=$?
  echo "C$i rc=$rc $(( $(date +%s) - start ))s $(echo "$out" | tail -1)"
  [ $rc -ne 0 ] && echo "$out" | grep -E "VIOLATION|HARNESS|bucket" | head -5
done
exit 0
