#!/bin/bash
# tools/mutant.sh <name> <patch-file|-e 'python-edit'> -- <ID> [<ID> ...]
# Applies a patch to a scratch worktree of /repo (HEAD), runs the quick checks against it
# with evidence/replays redirected to a temp dir, prints one line per check, removes the worktree.
name="$1"; patch="$2"; shift 2; [ "$1" = "--" ] && shift
wt=/tmp/nvf_mut_$name; out=/tmp/nvf_mutout_$name
git -C /repo worktree remove --force $wt 2>/dev/null; rm -rf $wt $out
git -C /repo worktree add -q --detach $wt HEAD || exit 2
if ! git -C $wt apply "$patch"; then echo "PATCH FAILED $name"; git -C /repo worktree remove --force $wt; exit 2; fi
mkdir -p $out
for id in "$@"; do
  start=$(date +%s)
  NASIM_REPO=$wt NVF_OUT=$out timeout ${MUT_TIMEOUT:-900} /verif/check $id --tier ${MUT_TIER:-quick} > $out/$id.log 2>&1; rc=$?
  echo "mutant=$name check=$id rc=$rc $(( $(date +%s) - start ))s $(grep -c '^VIOLATION' $out/$id.log) violation-lines; $(grep -m1 'bucket' $out/$id.log | cut -c1-200)"
done
git -C /repo worktree remove --force $wt; git -C /repo worktree prune
[ -n "$KEEP_OUT" ] || rm -rf $out
