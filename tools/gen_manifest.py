#!/usr/bin/env python3
"""Writes /verif/MANIFEST.json from the table below (kept in one place so the
manifest always stays schema-valid)."""
import json
import os

HERE = os.path.dirname(os.path.dirname(os.path.abspath(__file__)))

DYN_NOTE = ("Trusted base: the reference model nvf/model.py written from the property statements, the documented "
            "vector layout (nvf/decode.py), NumPy's seeded global RandomState (start-up self-test; an uncontrolled draw gives exit 2). "
            "Bounded: random documents <= 7 hosts (wide family <= 11 hosts / 9 subnets), generated scenarios <= 20 (thorough 40) hosts plus "
            "a share of 40-70 host and of feature-rich (55-90 flags per host) scenarios, histories 12-60 (150) ops, flat and parameterised "
            "actions, optionally next to a foreign environment; exhaustive for the listed shipped scenarios (thorough: ~200 random small documents).")

CHECKS = {
    "C01": ("model-based stateful PBT (Hypothesis op lists, reference model oracle, steered draws) + exhaustive state enumeration of tiny*/small*",
            "Every execution's compromised/access columns are compared with a from-scratch reference model: changes only on the target of an applicable exploit/escalation, mandatory success with max(previous, granted) access when all gates pass and the draw succeeds.", "3 C01"),
    "C02": ("model-based stateful PBT with adaptive near-miss generation (one failing network gate) + exhaustive enumeration",
            "Actions blocked by discovery / pivot / subnet rule / host deny-list / target access must fail, leave the tensor byte-identical and gain nothing, on both draw sides; generator steers into states where exactly one gate blocks.", "3 C02"),
    "C03": ("invariant checking over generated histories + exhaustive BFS of all reachable states of tiny*/small*",
            "Reachability/discovery invariants after every step and reset; discovery changes only through a successful subnet scan on a compromised host and then by exactly the connected subnets; info dicts match.", "3 C03"),
    "C04": ("history invariants (monotonicity, immutable columns byte-compare) with resets interleaved by the generator",
            "Monotone status/access, configuration columns byte-identical to the initial tensor after every execution; reset returns the exact initial tensor/observation and zero steps wherever it is interleaved.", "3 C04"),
    "C05": ("per-step reward oracle from the scenario source + per-episode pay-once ledger over generated histories",
            "reward == value - cost(source) with the value derived from the real transition (root first obtained / newly discovered hosts), failed actions pay full cost, no-op 0, ledger forbids second payment.", "3 C05"),
    "C06": ("shadow step counter and goal predicate over generated histories incl. steps past the limit and past the goal",
            "done == all sensitive hosts ROOT == goal_reached(state) for step, generative step, saved states; step-limit flag == (count >= limit) with a shadow counter; generative steps do not count.", "3 C06"),
    "C07": ("draw-steering metamorphic test: same state/action executed with the uniform draw on both sides of prob",
            "lo draw => success with model effects, hi draw => unchanged state, zero value, undefined_error only; p=1/p=0 with adverse draws; gated actions identical on both sides; flag consistency; <= 1 draw per step.", "3 C07"),
    "C08": ("mask-algebra oracle: expected observation = entitlement mask (x) true next state, exact array equality, 4 observation modes",
            "Observations of every execution (and initial/reset observations) equal the independently computed masked state in fully/partially observable and 1D/2D modes, aux row equals the info flags.", "3 C08"),
    "C13": ("purity by byte-wise before/after comparison + differential step vs generative_step under the same seed",
            "generative_step leaves argument, current state, last observation and counter untouched, returns unshared storage (write-through probe); step with the same draw returns and installs exactly that result.", "3 C13"),
    "C09": ("layout decode oracle + round-trip (from_numpy / get_readable) over generated scenarios incl. custom address bounds; 1D/2D lock-step",
            "Initial and visited states/observations are decoded by the documented layout computed from the scenario source and compared with the source / reference model; shapes vs advertised dims; 1D == flatten(2D); from-array constructors and readable decoders round-trip.", "3 C09"),
    "C10": ("contract PBT over all 8 mode combinations with every member spelling incl. the space's own sampler; exhaustive member stepping on tiny*",
            "reset/step tuple shapes and types, observation dtype/shape/containment in observation_space and advertised dims, acceptance of sampled NumPy integers/arrays, ints, lists, tuples, Action objects.", "3 C10"),
    "C11": ("differential against the cartesian product from the scenario source; exhaustive decode of every parameter vector; mask oracle over histories",
            "Flat multiset == scenario product, size == advertised, stable mapping; every vector of product(range(nvec)) decoded and compared with its documented meaning (wrap-around, first definition, zero-cost no-op); mask == discovered(target) in every visited state.", "3 C11"),
    "C12": ("8-way lock-step differential under identical seeds (flat index vs parameter vector rendering of each action)",
            "State tensors, rewards, terminal/limit flags, canonical info and step counters equal across all 8 mode combinations after every step; observations differ only by masking and shape.", "3 C12"),
    "C14": ("differential across repetitions, fresh subprocesses and PYTHONHASHSEED values (canonical fingerprints / trajectory hashes)",
            "Scenario fingerprints of generate_scenario(params, seed) and of the generated benchmarks, and sha256 hashes of whole seeded trajectories, must be identical twice in-process and in subprocesses started with different hash seeds.", "3 C14"),
    "C15": ("PBT over the documented generator parameter domain with a field-by-field validity predicate and a deterministic line-count termination budget",
            "Every generated parameter set must return (within a traced line budget) a scenario with exactly the requested counts, topology, host configurations, definitions, sensitive hosts, firewall and costs.", "3 C15"),
    "C16": ("witness search on the reference model + replay of the witness on the real environment with forced draws; real-environment closure as fallback",
            "For every generated parameter set and every shipped file a goal-reaching plan is found and replayed through step() until done=True; unsolvability is only reported from a closure over the real environment.", "3 C16"),
    "C17": ("round-trip PBT: generated document -> YAML (style/spelling varied) -> load_scenario -> field-by-field comparison with the source; C02-oracle walk on nasim.load(path)",
            "Every valid generated document and shipped file must load and reproduce the file (hosts, deny-lists with tuple keys, allow-lists, definitions, costs, limit); documents with deny-lists / one-directional rules are additionally walked with the firewall oracle on the loaded environment.", "3 C17"),
    "C18": ("fault injection: catalogue of ~125 single-rule mutators (and pairs) applied to every valid base document; accept = violation",
            "Each documented rule of the statement has >= 1 mutator; every mutant of every base (9 shipped + random documents) must make load_scenario raise.", "3 C18"),
    "C19": ("differential on generated interleavings: A alone vs A' interleaved with construction/reset/step/drop of other environments",
            "After every foreign operation A' is re-read (state, last observation, readable decodes, rendered arrays) and must equal the solo reference; every step of A' must equal the reference step; benchmark parameter dicts are not leaked between calls.", "3 C19"),
    "C20": ("exact optimisation on the reference model's monotone state graph + witness replay on the real environment",
            "The reward-maximal and the host-minimal goal-reaching episodes of small in-domain scenarios are computed exactly on the model and replayed on the real environment; the real total must not exceed get_score_upper_bound(), get_minimum_hops() must not exceed the compromised hosts of the real final state.", "3 C20"),
}

NOT_YET = {}


def main():
    props = [json.loads(l) for l in open(os.path.join(HERE, "properties.jsonl"))]
    checks = []
    na = []
    for p in props:
        pid = p["id"]
        if pid in CHECKS:
            tech, text, ref = CHECKS[pid]
            checks.append(dict(
                property_id=pid,
                quick_cmd=f"./check {pid} --tier quick",
                thorough_cmd=f"./check {pid} --tier thorough",
                evidence_file=f"evidence/{pid}.json",
                replay_cmd_template=f"./check {pid} --replay {{path}}",
                engine="nvf",
                level_claimed=dict(category="fault_enumeration" if pid == "C18" else "exploration", text=text, design_ref=f"DESIGN.md section {ref}"),
                level_note=EXTRA_NOTE.get(pid, DYN_NOTE),
                technique=tech))
        else:
            na.append(dict(property_id=pid, reason=NOT_YET.get(pid, "check not built yet in this revision of /verif (planned, see DESIGN.md section 3)")))
    man = dict(
        version=1,
        setup_cmd="./setup.sh",
        hooks=dict(guard="NASIM_VERIF",
                   enable="no source hooks: every observation point is public API; checks import /repo's working tree via PYTHONPATH (NASIM_VERIF=1 is exported but nothing in /repo reads it)",
                   baseline_off_cmd="cd /repo && /venv/bin/python -m pytest -ra -q -p no:cacheprovider --timeout=900 --continue-on-collection-errors",
                   source_commits=[], add_only=True),
        engines=[dict(name="nvf", path="nvf/", serves_properties=sorted(CHECKS),
                      kind_free_text="Hypothesis-driven property-based testing: generated scenarios/documents/parameter sets x model-guided operation histories, reference-model / differential / round-trip / metamorphic oracles, exhaustive enumeration on small finite domains")],
        checks=checks,
        notes="Technique family: property-based testing and fuzzing. ./check <ID> --tier quick|thorough; exit 0 held, 1 VIOLATION, 2 harness error/inconclusive. Genuine defects found and repaired are listed in known_findings.json (fix: commits in /repo).",
        not_applicable=na)
    with open(os.path.join(HERE, "MANIFEST.json"), "w") as f:
        json.dump(man, f, indent=1)
    print(f"{len(checks)} checks, {len(na)} not_applicable")


EXTRA_NOTE = {
    "C14": "Trusted base: canonical fingerprint function (sets sorted), subprocess plumbing. Samples 3 (thorough 8) PYTHONHASHSEED values; bounded parameter domain (<= 14 / 40 hosts).",
    "C15": "Trusted base: the validity predicate written from the generator's documentation and the property statement; termination = within 2e6 (thorough 5e6) traced line events. Bounded: num_hosts <= 12 (thorough 60), services <= 5 (10).",
    "C17": "Trusted base: the document generator's notion of a valid file (tutorial docs/source/tutorials/creating_scenarios.rst), PyYAML safe_dump. Documents <= 7 hosts.",
    "C18": "Trusted base: the mutator catalogue (each mutant breaks exactly one rule named in the statement). Bases: 9 shipped + 64 (thorough 640) random documents; pairs sampled.",
    "C19": "Trusted base: the solo reference run in the same process; sequential interleavings only (no threads in NASim). Scenarios <= 10 hosts, <= 20 operations of A.",
    "C20": "Trusted base: reference model for the search (violations need a real-environment witness). Exact search <= 7 hosts / 6000 model states; larger scenarios only with greedy witnesses.",
    "C16": "Trusted base: reference model only proposes plans; verdicts come from the real environment (replay or closure). Bounded parameter domain as C15.",
}

if __name__ == "__main__":
    main()
