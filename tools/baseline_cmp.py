#!/usr/bin/env python3
"""Compare a junit xml of the repository's suite with /root/.vp/BASELINE.json.
usage: baseline_cmp.py <junit.xml>   exit 0 iff every stable-pass test passed."""
import json, sys, ast
import xml.etree.ElementTree as ET

base = json.load(open("/root/.vp/BASELINE.json"))
stable = base["stable_pass"]
if isinstance(stable, str):
    stable = ast.literal_eval(stable)
stable = set(stable)
passed = set()
for tc in ET.parse(sys.argv[1]).getroot().iter("testcase"):
    ok = not any(ch.tag in ("failure", "error", "skipped") for ch in tc)
    if ok:
        passed.add(f"{tc.get('classname')}::{tc.get('name')}")
missing = sorted(stable - passed)
print(f"stable={len(stable)} passed_now={len(passed)} missing={len(missing)} newly_passing={len(passed - stable)}")
for m in missing[:20]:
    print("  MISSING", m)
sys.exit(1 if missing else 0)
