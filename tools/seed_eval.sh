#!/bin/bash
# tools/seed_eval.sh <ID> [<dir with patch.diff demo.py>] [checks...]
# Confirms a seeded change (tests still pass, demo fails with / passes without it) and runs checks against it.
id=$1; dir=${2:-/tmp/seed_out/$id}; shift 2 2>/dev/null
checks="${@:-$id}"
tag=$(basename $dir)_$$; wt=/tmp/sv_$tag; out=/tmp/sv_out_$tag
git -C /repo worktree remove --force $wt 2>/dev/null; rm -rf $wt $out; mkdir -p $out
git -C /repo worktree add -q --detach $wt HEAD || exit 2
git -C $wt apply $dir/patch.diff || { echo "PATCH DOES NOT APPLY"; git -C /repo worktree remove --force $wt; exit 2; }
if [ -z "$SKIP_CONFIRM" ]; then
( cd /tmp && PYTHONPATH=/repo timeout 300 /venv/bin/python $dir/demo.py > $out/demo_clean.log 2>&1 ); d0=$?
( cd /tmp && PYTHONPATH=$wt timeout 300 /venv/bin/python $dir/demo.py > $out/demo_mut.log 2>&1 ); d1=$?
( cd $wt && PYTHONPATH=$wt /venv/bin/python -m pytest -q -p no:cacheprovider --timeout=900 --continue-on-collection-errors --junitxml=$out/junit.xml > $out/pytest.log 2>&1 )
cmp=$(python3 /verif/tools/baseline_cmp.py $out/junit.xml | head -1)
echo "seed=$id demo_clean_rc=$d0 demo_mutated_rc=$d1 tests: $cmp"
fi
for c in $checks; do
  start=$(date +%s)
  NASIM_REPO=$wt NVF_OUT=$out timeout 1800 /verif/check $c --tier ${SEED_TIER:-quick} > $out/$c.log 2>&1; rc=$?
  echo "  seed=$id check=$c rc=$rc $(( $(date +%s) - start ))s :: $(grep -m1 'bucket' $out/$c.log | cut -c1-220)"
done
git -C /repo worktree remove --force $wt; git -C /repo worktree prune; [ -n "$KEEP_OUT" ] || rm -rf $out
