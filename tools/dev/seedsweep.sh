#!/bin/bash
# usage: seedsweep.sh <tier> <seeds...>
tier=$1; shift
for s in "$@"; do
  for i in 01 02 03 04 05 06 07 08 09 10 11 12 13 14 15 16 17 18 19 20; do
    out=/tmp/nvf_sweep_$s; mkdir -p $out
    start=$(date +%s)
    VERIF_SEED=$s NVF_OUT=$out timeout 7200 /verif/check C$i --tier $tier > $out/C$i.log 2>&1; rc=$?
    echo "seed=$s C$i tier=$tier rc=$rc $(( $(date +%s) - start ))s $(tail -1 $out/C$i.log)"
  done
done
