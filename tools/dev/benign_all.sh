#!/bin/bash
# every benign refactoring x every quick check (must all be quiet)
ls -d /verif/benign/*/ | xargs -P 3 -I{} bash -c 'n=$(basename {}); /verif/tools/mutant.sh benign$n {}patch.diff -- C01 C02 C03 C04 C05 C06 C07 C08 C09 C10 C11 C12 C13 C14 C15 C16 C17 C18 C19 C20 2>&1 | sed "s/^/[$n] /"' > /root/work/benign_all.log 2>&1
echo finished >> /root/work/benign_all.log
