#!/usr/bin/env python3
"""mkprompts.py <round> : prompts for a seeding round from the round-7 template + all stored seeds"""
import json, os, re, sys, glob
r = int(sys.argv[1])
extra = sys.argv[2] if len(sys.argv) > 2 else ""
for i in range(1, 21):
    pid = f"C{i:02d}"
    t = open(f"/root/work/prompt_tmpl/{pid}.txt").read()
    head, tail = t.split("IMPORTANT - ")
    tail_after = tail.split("\n\n", 1)[1]
    tail_after = "\n".join(l for l in tail_after.splitlines() if not l.startswith("Additional hint"))
    seeds = []
    for d in sorted(glob.glob(f"/verif/seeded/{pid}*"), key=lambda p: (len(p), p)):
        seeds.append(json.load(open(d + "/meta.json"))["change"])
    lst = "\n".join(f' {k+1}. "{c}"' for k, c in enumerate(seeds))
    words = {7: "seven", 8: "eight", 9: "nine"}.get(len(seeds), str(len(seeds)))
    t2 = head + f"IMPORTANT - {words} seeded changes for this property already exist; yours must be different in kind from all of them (different clause or different mechanism, different function):\n{lst}\n\n" + tail_after
    if extra:
        t2 += "\n" + extra + "\n"
    t2 = t2.replace("seed10_", f"seed{r}_")
    os.makedirs(f"/tmp/seed{r}_out/{pid}", exist_ok=True)
    open(f"/tmp/seed{r}_out/{pid}/prompt.txt", "w").write(t2)
print("ok")
