#!/bin/bash
# every stored seed against the check of its own property (no re-confirmation)
for d in /verif/seeded/*; do
  n=$(basename $d); id=${n%%_*}
  echo "$n $id"
done | xargs -P 4 -L 1 bash -c 'SKIP_CONFIRM=1 /verif/tools/seed_eval.sh $1 /verif/seeded/$0 $1 2>&1 | sed "s/^/[$0] /"' > /root/work/diag.log 2>&1
