#!/bin/bash
# every stored seed of the given properties against its own check
for d in /verif/seeded/*; do
  n=$(basename $d); id=${n%%_*}
  for want in "$@"; do [ "$id" = "$want" ] && echo "$n $id"; done
done | xargs -P 4 -L 1 bash -c 'SKIP_CONFIRM=1 /verif/tools/seed_eval.sh $1 /verif/seeded/$0 $1 2>&1 | sed "s/^/[$0] /"' > /root/work/diag_subset.log 2>&1
echo finished >> /root/work/diag_subset.log
