#!/bin/bash
# usage: runtests.sh <tag>
cd /repo && /venv/bin/python -m pytest -ra -q -p no:cacheprovider --timeout=900 --continue-on-collection-errors --junitxml=/root/work/$1.xml > /root/work/$1.log 2>&1
tail -1 /root/work/$1.log
python3 /verif/tools/baseline_cmp.py /root/work/$1.xml
