#!/bin/bash
# evalround.sh <round> [tag] : evaluate every delivered seed of the round that has no eval<tag>.log yet (4 at a time)
r=$1; tag=${2:-}
for d in /tmp/seed${r}_out/C*; do
  id=$(basename $d)
  [ -f $d/patch.diff ] && [ -f $d/notes.md ] && [ ! -f $d/eval$tag.log ] && echo $id
done | xargs -r -P 4 -I{} bash -c "cd /verif; ${SKIP:+SKIP_CONFIRM=1} KEEP_OUT=1 timeout 1800 tools/seed_eval.sh {} /tmp/seed${r}_out/{} {} > /tmp/seed${r}_out/{}/eval$tag.log.tmp 2>&1; mv /tmp/seed${r}_out/{}/eval$tag.log.tmp /tmp/seed${r}_out/{}/eval$tag.log"
for d in /tmp/seed${r}_out/C*; do [ -f $d/eval$tag.log ] && echo "$(basename $d): $(tail -1 $d/eval$tag.log | cut -c1-200)"; done
